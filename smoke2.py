import sys, json, time
sys.path.insert(0, "/verif")
from jv.kernel import Chooser
from jv import run, scenario
prof = {"name": "clean", "mode": "hpc"}
lo, hi = int(sys.argv[1]), int(sys.argv[2])
bad = 0
t = time.time()
tot_steps = 0
for seed in range(lo, hi):
    sc = scenario.gen_scenario(Chooser(f"scen/{seed}"), prof)
    w1 = run.execute(sc, prof, seed)
    w2 = run.execute(sc, prof, seed)
    w3 = run.execute(sc, prof, seed, trace=w1.ch.trace)
    d1, d2, d3 = w1.digest(), w2.digest(), w3.digest()
    tot_steps += w1.steps
    crashes = [(v.role, v.crash["type"], v.crash["where"]) for v in w1.vprocs if v.crash]
    st = w1.driver.status()
    print(seed, d1[:10], d1 == d2, d1 == d3, "steps", w1.steps, "cut", w1.cut, "complete", st and st.get("is_complete"), crashes, w1.harness_errors[:1])
    if d1 != d2 or d1 != d3:
        bad += 1
        a, b = w1.canon_history(), (w2 if d1 != d2 else w3).canon_history()
        for x, y in zip(a, b):
            if x != y:
                print("  DIFF", x[:300]); print("      ", y[:300]); break
print("bad", bad, "wall", round(time.time() - t, 2), "steps", tot_steps)
