import sys, json, time
sys.path.insert(0, "/verif")
from jv.kernel import Chooser
from jv import run, scenario
seed = int(sys.argv[1]) if len(sys.argv) > 1 else 1
prof = {"name": "clean", "mode": "hpc"}
sc = scenario.gen_scenario(Chooser(f"scen/{seed}"), prof)
print(json.dumps(scenario.summary(sc)))
t=time.time()
w = run.execute(sc, prof, seed, debug="-d" in sys.argv)
print("wall", round(time.time()-t,3), "steps", w.steps, "vtime", round(w.now-w.t0,1), "cut", w.cut, "vprocs", len(w.vprocs))
for vp in w.vprocs:
    print(vp.id, vp.role, vp.host, vp.exit_code, vp.crash, "".join(vp.out)[-200:].replace("\n","|"), "".join(vp.err)[-300:].replace("\n","|"))
print("probes", w.probes)
from collections import Counter
print(Counter(r[2] for r in w.history))
