"""Robustness sweep (development tool): run the quick check of every property under several
VERIF_SEED values and report every exit != 0.  A check that fails one run in fifty on the
unchanged tree is a false-alarm generator.   python -m jv.seedsweep [first] [count] [props...]"""
import os
import subprocess
import sys

VERIF = os.path.dirname(os.path.dirname(os.path.abspath(__file__)))
ALL = ["C01", "C02", "C03", "C04", "C05", "C06", "C07", "C08", "C09", "C10", "C11", "C12", "C13", "C14", "C15", "C16",
       "C18", "C19", "C20"]


def main():
    first = int(sys.argv[1]) if len(sys.argv) > 1 else 1
    count = int(sys.argv[2]) if len(sys.argv) > 2 else 5
    props = sys.argv[3:] or ALL
    bad = 0
    for seed in range(first, first + count):
        for p in props:
            env = dict(os.environ, VERIF_SEED=str(seed), JV_EVIDENCE_DIR="/dev/shm/jv-sweep-ev",
                       JV_REPLAY_DIR=os.path.join(VERIF, "replays_sweep", f"seed{seed}"))
            r = subprocess.run([sys.executable, "-m", "jv.check", p, "--tier", "quick"], cwd=VERIF, env=env,
                               capture_output=True, text=True)
            if r.returncode != 0:
                bad += 1
                lines = [ln for ln in r.stdout.splitlines() if ln.startswith(("VIOLATION", "  oracle=", "HARNESS", "violation candidate"))]
                print(f"seed {seed} {p} exit {r.returncode}:", *[ln[:300] for ln in lines[:6]], sep="\n   ", flush=True)
            else:
                print(f"seed {seed} {p} ok", flush=True)
    print(f"sweep done: {bad} non-zero exits")


if __name__ == "__main__":
    main()
