"""Run one simulated deployment: scenario -> world -> driver -> oracles -> result."""
import json
import os
import shutil
import sys
import time as _t

from . import ensure_repo_on_path, kernel
from .kernel import Chooser

_SCRATCH = None
_RUN_N = 0


def scratch_base():
    global _SCRATCH
    if _SCRATCH is None:
        import atexit

        _SCRATCH = f"/dev/shm/jade-verif-{os.getpid():07d}"
        os.makedirs(_SCRATCH, exist_ok=True)
        atexit.register(lambda p=_SCRATCH, pid=os.getpid(): (os.getpid() == pid) and not os.environ.get("JV_KEEP") and shutil.rmtree(p, ignore_errors=True))
    return _SCRATCH


_READY = False


def prepare_process():
    """Import jade from the repo working tree and install the seams (once per process)."""
    global _READY
    if _READY:
        return
    ensure_repo_on_path()
    sys.dont_write_bytecode = True
    os.environ.setdefault("JADE_REGISTRY", os.path.join(scratch_base(), "jade-registry.json"))
    import jade.cli.jade  # noqa: F401
    import jade.cli.jade_internal  # noqa: F401
    from jade.extensions.registry import Registry

    Registry(os.path.join(scratch_base(), "jade-registry.json"))
    from . import seams

    seams.install()
    _READY = True


class Driver:
    """User model: scripted commands + the documented try-submit-jobs recovery."""

    def __init__(self, w, prof):
        self.w = w
        self.prof = prof
        self.max_recovery = prof.get("max_recovery")
        self.recoveries = []
        self.pending_user = 0
        self.done_epoch_actions = False
        self.script = list(w.scenario.get("script", []))
        self.triggers = []
        # per-run user behaviour, derived from the scenario (not from the run-time Chooser)
        import hashlib

        h = hashlib.blake2b(repr(sorted(w.scenario.get("env", {}).items())).encode(), digest_size=2).digest()
        self.poked = False
        self.early = h[0] % 2 == 0
        self.early_delay = (0.0, 1.0, 10.0, 100.0)[h[1] % 4]

    def start(self):
        w = self.w
        sc = w.scenario
        from .scenario import submit_argv

        argv = submit_argv(sc, w.config_file, w.output)
        if sc.get("cli_params"):
            w.probe("params_on_command_line")
        w.run_user_cmd(argv, tag="submit")
        for u in sc.get("user", []):
            self._schedule(u)

    def argv_of(self, u):
        w = self.w
        out = u.get("output") or w.output
        c = u["cmd"]
        if c == "try-submit-jobs":
            return ["jade", "try-submit-jobs", out]
        if c == "show-status":
            return ["jade", "show-status", "-o", out, "-n"]
        if c == "cancel-jobs":
            return ["jade", "cancel-jobs", out] + list(u.get("flags", []))
        if c == "resubmit-jobs":
            return ["jade", "resubmit-jobs", out] + list(u.get("flags", []))
        return list(c)

    def _schedule(self, u):
        w = self.w

        def fire():
            out = u.get("output") or w.output
            if not (os.path.exists(os.path.join(out, "cluster_config.json"))
                    and os.path.exists(os.path.join(out, "job_status.json"))):
                # a user runs these commands on a submission that exists
                if w.now - w.t0 < 7 * 86400 and any(v.alive for v in w.vprocs):
                    w.after(1.0, fire, "user")
                return
            w.run_user_cmd(self.argv_of(u), host=u.get("host"), tag=u.get("tag", "spontaneous"))

        if "after" in u:
            self.triggers.append({"u": u, "fire": fire, "count": 0, "done": False})
        else:
            w.at(w.t0 + float(u["at"]), fire, "user")

    def _maybe_early_recovery(self):
        """The user notices that every batch has ended (squeue empty or only finished states) and
        runs the documented recovery right away instead of waiting until the scheduler has
        forgotten the batches."""
        w = self.w
        if any(v.alive for v in w.vprocs) or w.slurm.active_of():
            return
        if any(j.state == "COMPLETING" for j in w.slurm.order if not j.foreign):
            return
        st = self.status()
        if st is None or st.get("is_complete"):
            return
        self.quiescent(early=True)

    def on_record(self, rec):
        """Relative triggers: fire a user command after the n-th record of a kind."""
        kind = rec[2]
        if kind == "slurm" and self.early and rec[4].get("new") in ("COMPLETED", "<purged>") \
                and type(self).quiescent is Driver.quiescent and self.prof.get("fault_free", True):
            self.w.after(self.early_delay, self._maybe_early_recovery, "user")
        if not self.triggers:
            return
        for t in self.triggers:
            if t["done"]:
                continue
            a = t["u"]["after"]
            if a["kind"] != kind:
                continue
            if a.get("ok") is not None and bool(rec[4].get("ok")) != a["ok"]:
                continue
            if a.get("tag") is not None and rec[4].get("tag") != a["tag"]:
                continue
            if a.get("op") is not None and rec[4].get("op") != a["op"]:
                continue
            if a.get("path_has") is not None and a["path_has"] not in (rec[4].get("path") or ""):
                continue
            t["count"] += 1
            if t["count"] >= a.get("n", 1):
                t["done"] = True
                self.w.after(float(t["u"].get("delay", 0.0)), t["fire"], "user")

    def on_exit(self, vp):
        pass

    def finish(self):
        pass

    def status(self):
        """Read the persisted cluster status (harness-side, no lock, no yield)."""
        p = os.path.join(self.w.output, "cluster_config.json")
        try:
            with open(p) as f:
                return json.load(f)
        except (OSError, ValueError):
            return None

    def quiescent(self, early=False):
        """Called when nothing is runnable and no timer is pending.  Returns True if it
        started something."""
        w = self.w
        st = self.status()
        if st is None:
            return False
        if st.get("is_complete"):
            return self.after_complete(st)
        if self.prof.get("recovery", True) is False:
            return False
        # documented recovery: no batch of this submission queued or running
        if w.slurm.active_of():
            return False  # cannot happen at quiescence (active batches have timers)
        limit = len(w.scenario.get("jobs", [])) + 3
        if self.max_recovery is not None and any(f["kind"] != "squeue_fail" for f in w.faults.fired):
            # after a crash-type fault the submission may be stuck for good: a few attempts suffice
            limit = self.max_recovery
        if len(self.recoveries) >= limit + 3:
            return False
        # (show-status offers the recovery only once the scheduler has forgotten the batches, so the
        # early user runs try-submit-jobs directly)
        alt = not early and len(self.recoveries) % 2 == 1 and self.prof.get("recovery_show_status", True)
        if alt:
            argv = ["jade", "show-status", "-o", w.output, "-n"]
        else:
            argv = ["jade", "try-submit-jobs", w.output]
        vp = w.run_user_cmd(argv, tag="recovery")
        self.recoveries.append(vp)
        w.probe("recovery_round_needed")
        return True

    def after_complete(self, st):
        """Sometimes the user pokes a finished submission once more: it must stay complete, nothing
        may be submitted (C05 / C09 monitors)."""
        if self.poked or not self.early:
            return False
        self.poked = True
        w = self.w
        argv = ["jade", "try-submit-jobs", w.output] if self.early_delay < 5 else ["jade", "show-status", "-o", w.output, "-n"]
        w.probe("poked_after_completion")
        w.run_user_cmd(argv, tag="after_completion")
        return True


_CWD0 = os.getcwd()
_JADE_GLOBALS = {}   # (module name, variable) -> (container object, shallow copy when first seen)


def _restore_jade_globals():
    """All simulated processes of all runs of a worker share one interpreter.  JADE's module-level
    containers must not carry state from one run into the next (a real process starts with fresh modules):
    before every run they are put back to the contents they had when first seen.  (Within a run they are
    still shared by the simulated processes; the unchanged tree mutates none of them.)"""
    import sys

    for name, mod in list(sys.modules.items()):
        if mod is None or not (name == "jade" or name.startswith("jade.")):
            continue
        for k, v in list(vars(mod).items()):
            if k.startswith("__") or not isinstance(v, (list, dict, set)):
                continue
            key = (name, k)
            ent = _JADE_GLOBALS.get(key)
            if ent is None or ent[0] is not v:
                _JADE_GLOBALS[key] = (v, v.copy())
                continue
            saved = ent[1]
            if isinstance(v, list):
                if len(v) != len(saved) or any(a is not b for a, b in zip(v, saved)):
                    v[:] = saved
            elif isinstance(v, dict):
                if len(v) != len(saved) or any(kk not in v or v[kk] is not vv for kk, vv in saved.items()):
                    v.clear()
                    v.update(saved)
            elif v != saved:
                v.clear()
                v.update(saved)


def execute(scenario, prof, seed, trace=None, then_generate=False, props=(), debug=False, keep=False,
            world_hook=None):
    """Execute one run.  Returns (world, info)."""
    global _RUN_N
    prepare_process()
    from . import oracles
    from .world import SimWorld
    from .scenario import materialise

    _RUN_N += 1
    _restore_jade_globals()
    root = os.path.join(scratch_base(), f"r{_RUN_N % 1000000:06d}")
    shutil.rmtree(root, ignore_errors=True)
    os.makedirs(root)
    ch = Chooser(f"run/{seed}", trace=trace, then_generate=then_generate)
    w = SimWorld(scenario, ch, root, props=props, max_steps=prof.get("max_steps", 30000), debug=debug)
    t0 = _t.perf_counter()
    try:
        if not prof.get("no_materialise"):
            materialise(scenario, w)
        drv_cls = prof.get("driver_cls") or Driver
        w.driver = drv_cls(w, prof)
        w.quiescent_hook = w.driver.quiescent
        oracles.attach(w, prof, props)
        w.monitors.append(w.driver)
        if world_hook:
            world_hook(w)
        kernel.W = w
        try:
            w.driver.start()
            w.run()
            oracles.finish(w, prof, props)
        finally:
            kernel.W = None
            w.shell.close_all()
            if os.getcwd() != _CWD0:
                os.chdir(_CWD0)
    finally:
        w.wall = _t.perf_counter() - t0
        if not keep and not os.environ.get("JV_KEEP"):
            shutil.rmtree(root, ignore_errors=True)
        elif os.environ.get("JV_KEEP"):
            print("kept", root, file=sys.__stderr__)
    return w
