"""C20 component simulations:
  * EventsSummary over a drawn multiset of events spread over a drawn number of per-process
    `*events.log` files (timestamps from several skewed clocks, ties, unsorted files), with
    re-load, re-consolidation and the resubmission sequence (more events, events/ cleared);
  * ResourceMonitorAggregator over drawn sample sequences per statistic."""
import copy
import json
import os
import shutil

from . import kernel, profiles
from .kernel import Chooser
from .scenario import Gen

EV_NAMES = ["bytes_consumed", "hpc_submit", "hpc_job_assigned", "submit_completed", "log_error", "user_event", "x",
            # user-defined names: dotted, sharing the text before their last dot, a name next to its own prefix
            "sim.started", "sim.finished", "sim", "a.b.c", "a.b.d", "user_event.v2"]


def gen(ch, prof):
    g = Gen(ch)
    files = []
    uid = 0
    for i in range(g.rint(0, 5)):
        evs = []
        base = 1700000000.0 + g.pick([0.0, -120.0, 3.5, 86400.0])
        for k in range(g.rint(0, 6)):
            uid += 1
            ts = base + g.pick([0.0, 0.0, 0.001, 1.0, 59.999, -5.0]) * g.rint(0, 3)
            evs.append({"name": g.pick(EV_NAMES), "ts": ts, "source": g.pick(["submitter", "job", f"j{k}", "a b"]),
                        "cls": g.pick(["StructuredLogEvent", "StructuredLogEvent", "StructuredErrorLogEvent"]),
                        "data": g.pick([{}, {"bytes_consumed": uid}, {"text": 'quote " and , comma', "n": uid},
                                        {"nested": {"a": [1, 2, uid]}}, {"uid": uid, "unicode": "é中"}]),
                        "uid": uid})
        files.append({"file": g.pick(["submit_jobs_events.log", f"run_jobs_batch_{i + 1}_0_events.log",
                                      f"extra{i}events.log"]) if i else "submit_jobs_events.log", "events": evs})
    # resource-stat events (consolidated into Parquet, one row per event / per process)
    res = []
    for i in range(g.rint(0, 4)):
        uid += 1
        if g.flip(0.5):
            procs = [{"name": f"job{uid}_{k}", "rss": 1000 * uid + k, "cpu_percent": float(g.rint(0, 100))}
                     for k in range(g.rint(1, 3))]
            res.append({"name": "process_stats", "ts": 1700000100.0 + i, "source": f"resource_monitor_batch_{i}_0",
                        "data": {"processes": procs}, "uid": uid, "file": g.rint(0, 5)})
        else:
            res.append({"name": g.pick(["cpu_stats", "mem_stats"]), "ts": 1700000100.0 + i,
                        "source": f"resource_monitor_batch_{i}_0",
                        "data": {"cpu_percent": float(g.rint(0, 100)), "user": float(uid)}, "uid": uid, "file": g.rint(0, 5)})
    more = []
    for i in range(g.rint(0, 3)):
        uid += 1
        more.append({"name": g.pick(EV_NAMES), "ts": 1700000500.0 + i, "source": "late", "cls": "StructuredLogEvent",
                     "data": {"uid": uid}, "uid": uid, "file": g.rint(0, 5)})
    stats = []
    for i in range(g.rint(1, 3)):
        n = g.rint(1, 8)
        procs = []
        if g.flip(0.6):
            for k in range(g.rint(1, 3)):
                a = g.rint(0, n - 1)
                procs.append({"name": f"job{k}", "pid": 5000 + 10 * i + k, "from": a, "to": g.rint(a, n - 1),
                              "child": g.flip(0.3), "pattern": g.pick(["spiky", "spiky", "random", "zero", "decreasing", "increasing"])})
        stats.append({"pattern": g.pick(["increasing", "decreasing", "constant", "zero", "random", "spiky"]), "n": n,
                      "cpu": g.flip(0.8), "memory": g.flip(0.8), "procs": procs})
    return {"kind": "comp_events", "files": files, "more": more, "stats": stats, "res": res, "env": {}, "jobs": [], "groups": [],
            "stat_patterns": ["increasing", "decreasing", "constant", "zero", "random"]}


def g_flip_ids(it, procs):
    return bool(procs) and it % 3 == 1


def ev_line(e):
    import datetime

    d = {"category": "cat_" + e["name"][:3], "data": dict(e["data"]), "event_class": e["cls"],
         "message": f"m{e['uid']}", "name": e["name"], "source": e["source"],
         "timestamp": str(datetime.datetime.fromtimestamp(e["ts"]))}
    if e["cls"] == "StructuredErrorLogEvent":
        d["data"].setdefault("exception", "<class 'ValueError'>")
    return json.dumps(d, sort_keys=True), d


def runner(scenario, prof, seed, trace=None, then_generate=False, props=()):
    from . import run
    from .world import SimWorld

    run.prepare_process()
    from jade.events import EventsSummary
    from jade.resource_monitor import ResourceMonitorAggregator
    from jade.models.submitter_params import ResourceMonitorStats

    run._RUN_N += 1
    root = os.path.join(run.scratch_base(), f"r{run._RUN_N % 1000000:06d}")
    shutil.rmtree(root, ignore_errors=True)
    os.makedirs(root)
    ch = Chooser(f"run/{seed}", trace=trace, then_generate=then_generate)
    w = SimWorld(scenario, ch, root, props=props, max_steps=20000)
    out = w.output
    os.makedirs(os.path.join(out, "stats"))

    def bad(oracle, key, msg):
        w.violation("C20", oracle, key, msg)

    truth = {}
    seen_files = {}
    for f in scenario["files"]:
        seen_files.setdefault(f["file"], [])
        for e in f["events"]:
            line, d = ev_line(e)
            seen_files[f["file"]].append(line)
            truth.setdefault(e["name"], []).append(d)
    for fn, lines in seen_files.items():
        with open(os.path.join(out, fn), "a") as fh:
            for ln in lines:
                fh.write(ln + "\n")

    res_truth = {}
    for e in scenario.get("res", []):
        e2 = dict(e, cls="StructuredLogEvent")
        line, d = ev_line(e2)
        names = sorted(seen_files) or ["submit_jobs_events.log"]
        fn = names[e["file"] % len(names)]
        with open(os.path.join(out, fn), "a") as fh:
            fh.write(line + "\n")
        if e["name"] == "process_stats":
            for pr in e["data"]["processes"]:
                res_truth.setdefault(e["name"], []).append(dict(pr, timestamp=d["timestamp"], source=e["source"]))
        else:
            res_truth.setdefault(e["name"], []).append(dict(e["data"], timestamp=d["timestamp"], source=e["source"]))

    def check_res(tag, summ):
        for name, rows in res_truth.items():
            df = summ.get_dataframe(name)
            got = df.reset_index().to_dict("records") if len(df) else []
            g_ = sorted(json.dumps(r, sort_keys=True, default=str) for r in got)
            wv = sorted(json.dumps(r, sort_keys=True, default=str) for r in rows)
            if g_ != wv:
                lost = [x for x in wv if x not in g_]
                bad("resource_events_altered", "consolidated resource-stat events differ from the events written",
                    f"{tag} {name}: written {len(wv)} rows, consolidated {len(g_)}; lost={lost[:2]}")
        if res_truth:
            w.probe("resource_events_checked")

    def norm(d):
        return json.dumps({k: d.get(k) for k in ("category", "data", "event_class", "message", "name", "source", "timestamp")},
                          sort_keys=True)

    def check(tag, summ, truth_now):
        for name in sorted(set(truth_now) | set(EV_NAMES)):
            got = [e.to_dict() for e in summ.list_events(name)]
            g_ = sorted(norm(x) for x in got)
            wv = sorted(norm(x) for x in truth_now.get(name, []))
            if g_ != wv:
                lost = [x for x in wv if x not in g_]
                extra = [x for x in g_ if x not in wv]
                bad("events_lost_or_duplicated", "consolidated events differ from the events written",
                    f"{tag} {name}: written {len(wv)} consolidated {len(g_)} lost={lost[:1]} extra={extra[:1]}")
            ts = [x["timestamp"] for x in got]
            if ts != sorted(ts):
                bad("events_unsorted", "events of one name are not ordered by time", f"{tag} {name}: {ts}")
        return {n: [norm(e.to_dict()) for e in summ.list_events(n)] for n in truth_now}

    def target(vp):
        n_ev = sum(len(v) for v in truth.values())
        if n_ev:
            w.probe("events_checked")
        summ0 = EventsSummary(out)
        first = check("consolidate", summ0, truth)
        check_res("consolidate", summ0)
        again = check("reload", EventsSummary(out), truth)
        if first != again:
            bad("events_reload_differs", "loading the consolidated events again gives a different list", "")
        pre = check("preload", EventsSummary(out, preload=True), truth)
        shutil.rmtree(os.path.join(out, "events"))
        second = check("reconsolidate", EventsSummary(out), truth)
        if {k: sorted(v) for k, v in first.items()} != {k: sorted(v) for k, v in second.items()}:
            bad("events_reconsolidation_differs", "consolidating again changes the event summary", "")
        # resubmission: more events appended to the per-process files, events/ cleared (not removed)
        if scenario["more"]:
            names = sorted(seen_files) or ["submit_jobs_events.log"]
            for e in scenario["more"]:
                line, d = ev_line(e)
                fn = names[e["file"] % len(names)]
                with open(os.path.join(out, fn), "a") as fh:
                    fh.write(line + "\n")
                truth.setdefault(e["name"], []).append(d)
            for p in os.listdir(os.path.join(out, "events")):
                os.unlink(os.path.join(out, "events", p))
            check("after_resubmission", EventsSummary(out), truth)
            w.probe("events_reconsolidated_after_more")
        # ---- statistics
        for si, st in enumerate(scenario["stats"]):
            procs = st.get("procs") or []
            stats = ResourceMonitorStats(cpu=st["cpu"], memory=st["memory"], disk=False, network=False, process=bool(procs))
            w.scenario["stat_patterns"] = [st["pattern"]]
            w.stat_patterns.clear()
            for pr in procs:
                for nm in (pr["name"], pr["name"] + "/child"):
                    for stat in ("rss", "cpu_percent"):
                        w.stat_patterns[(vp.id, f"proc:{si}:{nm}", stat)] = pr["pattern"]
            before = {k: len(v) for k, v in w.stats_served.items()}
            agg = ResourceMonitorAggregator(f"resource_monitor_batch_{si}_0", stats)
            for it in range(st["n"]):
                ids = {}
                w.stat_procs.clear()
                w.stat_children.clear()
                for pr in procs:
                    if pr["from"] <= it <= pr["to"]:
                        ids[pr["name"]] = pr["pid"]
                        w.stat_procs[pr["pid"]] = f"{si}:{pr['name']}"
                        if pr["child"]:
                            w.stat_children[pr["pid"]] = [pr["pid"] + 5]
                            w.stat_procs[pr["pid"] + 5] = f"{si}:{pr['name']}/child"
                if g_flip_ids(it, procs):
                    ids["ghost"] = 4999  # a job whose process is already gone: must be skipped
                agg.update_resource_stats(ids=ids)
                w.sleep(vp, 1.0)
            agg.finalize(out)
            path = os.path.join(out, "stats", f"resource_monitor_batch_{si}_0_resource_stats.json")
            with open(path) as fh:
                data = json.load(fh)
            w.probe("stats_checked")
            reported = {ent.get("name"): ent for ent in data if ent.get("type") == "Process"}
            for pr in procs:
                ser = {stat: list(w.stats_served.get((vp.id, f"proc:{si}:{pr['name']}", stat), [])) for stat in ("rss", "cpu_percent")}
                ser["rss"] = [int(v * 1000) for v in ser["rss"]]
                if pr["child"]:
                    for stat in ser:
                        ch_ = list(w.stats_served.get((vp.id, f"proc:{si}:{pr['name']}/child", stat), []))
                        if stat == "rss":
                            ch_ = [int(v * 1000) for v in ch_]
                        ser[stat] = [a + b for a, b in zip(ser[stat], ch_)]
                ent = reported.get(pr["name"])
                if ent is None:
                    bad("stats_process_missing", "a sampled job process is missing from the aggregated report", pr["name"])
                    continue
                w.probe("process_stats_checked")
                for stat, vals in ser.items():
                    for key, fn in (("minimum", min), ("maximum", max), ("average", lambda v: sum(v) / len(v))):
                        got = ent.get(key, {}).get(stat)
                        if got is None or abs(fn(vals) - got) > 1e-6 * max(1.0, abs(got)):
                            bad("stats_process_" + key, f"aggregated per-process {key} differs from the samples taken",
                                f"{pr['name']}.{stat}: reported {got}, samples {vals[:8]} true {fn(vals)} (pattern {pr['pattern']})")
            for nm in reported:
                if nm not in {pr["name"] for pr in procs}:
                    bad("stats_process_unknown", "the aggregated report names a process that was never sampled", str(nm))
            for ent in data:
                typ = {"CPU": "cpu", "Memory": "memory"}.get(ent.get("type"))
                if typ is None or not st[typ]:
                    continue
                for (vpid, group, name), vals in w.stats_served.items():
                    if group != typ:
                        continue
                    vals = vals[before.get((vpid, group, name), 0):]
                    if len(vals) < 2:
                        continue
                    cands = [vals[1:], vals]
                    for key, fn in (("minimum", min), ("maximum", max), ("average", lambda v: sum(v) / len(v))):
                        got = ent.get(key, {}).get(name)
                        if got is None:
                            bad("stats_missing", "a statistic is missing from the aggregated report", f"{typ}.{name}.{key}")
                            continue
                        if not any(abs(fn(c) - got) < 1e-6 * max(1.0, abs(got)) for c in cands):
                            bad("stats_" + key, f"aggregated {key} differs from the samples taken",
                                f"{ent.get('type')}.{name}: reported {got}, samples {vals[:6]} true {fn(vals[1:])} "
                                f"(pattern {st['pattern']}, n={st['n']})")
        return 0

    try:
        kernel.W = w
        w.spawn("reporter", target, "login1", w.base_env("login1"))
        try:
            w.run()
        finally:
            kernel.W = None
        for v in w.vprocs:
            if v.crash:
                bad("report_raised", "building a report raised", f"{v.crash['type']} at {v.crash['where']}: {v.crash['msg'][:200]}")
    finally:
        shutil.rmtree(root, ignore_errors=True)
    return w


def candidates(sc):
    out = []
    for i in range(len(sc["files"]) - 1, -1, -1):
        c = copy.deepcopy(sc)
        del c["files"][i]
        out.append((f"drop file {i}", c))
    for i, f in enumerate(sc["files"]):
        for k in range(len(f["events"]) - 1, -1, -1):
            c = copy.deepcopy(sc)
            del c["files"][i]["events"][k]
            out.append((f"drop event {i}.{k}", c))
    for key in ("more", "stats"):
        for i in range(len(sc[key]) - 1, -1, -1):
            if key == "stats" and len(sc[key]) == 1:
                continue
            c = copy.deepcopy(sc)
            del c[key][i]
            out.append((f"drop {key} {i}", c))
    return out


profiles.profile("comp_events", kind="component", gen=gen, runner=runner, shrink_candidates=candidates, fault_free=True)
profiles.PROFILE_PROPS["comp_events"] = ["C20"]
