"""C07 dry-run twin: the first round executed twice, with dry_run false and true."""
import copy
import glob
import json
import os

from . import profiles
from .scenario import gen_scenario


def gen_dry(ch, prof):
    sc = gen_scenario(ch, prof)
    sc["user"] = []
    sc["env"]["p_stall"] = 0.0
    return sc


def _batches(out):
    res = {}
    for p in sorted(glob.glob(os.path.join(out, "config_batch_*.json"))):
        with open(p) as f:
            data = json.load(f)
        n = int(os.path.basename(p)[len("config_batch_"):-len(".json")])
        res[n] = [((j.get("name") if j.get("name") is not None else str(j.get("job_id"))),
                   sorted(str(b) for b in j.get("blocked_by", [])), j.get("submission_group")) for j in data.get("jobs", [])]
    return res


def runner2(scenario, prof, seed, trace=None, then_generate=False, props=()):
    """Run A (real) up to the end of submit-jobs, then B (dry run) to quiescence; compare."""
    from . import run

    grabbed = {}

    def hook_a(w):
        orig = w.driver.on_exit

        def on_exit(vp):
            if vp.role == "submit-jobs" and "a" not in grabbed:
                grabbed["a"] = _batches(w.output)
                grabbed["a_rc"] = vp.exit_code
                w.stop_flag = True
            orig(vp)

        w.driver.on_exit = on_exit

    sa = copy.deepcopy(scenario)
    pa = dict(prof, recovery=False)
    run.execute(sa, pa, seed, props=set(), world_hook=hook_a)

    sb = copy.deepcopy(scenario)
    for g in sb["groups"]:
        g["params"]["dry_run"] = True
    sb["dry_run"] = True

    def hook_b(w):
        orig = w.driver.on_exit

        def on_exit(vp):
            if vp.role == "submit-jobs" and "b" not in grabbed:
                grabbed["b"] = _batches(w.output)
                grabbed["b_rc"] = vp.exit_code
            orig(vp)

        w.driver.on_exit = on_exit

    wb = run.execute(sb, pa, seed, trace=trace, then_generate=then_generate, props=props, world_hook=hook_b)
    a, b = grabbed.get("a"), grabbed.get("b")
    if a is None or b is None:
        wb.harness_errors.append("dry-run twin: submit-jobs did not finish")
        return wb
    wb.probe("dryrun_twin")
    if a != b:
        diff = {n: (a.get(n), b.get(n)) for n in sorted(set(a) | set(b)) if a.get(n) != b.get(n)}
        wb.violation("C07", "dryrun_batches_differ", "dry-run writes other first-round batches than a real submission",
                     f"real vs dry-run: {json.dumps(diff)[:600]}")
    if len(a) >= 2:
        wb.probe("dryrun_multi_batch")
    n_sb = sum(1 for r in wb.history if r[2] == "sbatch")
    n_l = sum(1 for r in wb.history if r[2] == "job_launch")
    n_jobs = sum(1 for j in wb.slurm.order if not j.foreign)
    n_cmd = sum(1 for r in wb.history if r[2] == "spawn" and r[4].get("role") == "node")
    if n_sb or n_jobs or n_l or n_cmd:
        wb.violation("C07", "dryrun_submitted", "dry-run handed a batch to the HPC or started a job",
                     f"sbatch commands={n_sb} scheduler jobs={n_jobs} launches={n_l}")
    if grabbed.get("a_rc") != grabbed.get("b_rc"):
        wb.violation("C07", "dryrun_exit_code", "dry-run exits differently from a real submission",
                     f"{grabbed.get('a_rc')} vs {grabbed.get('b_rc')}")
    return wb


profiles.profile("dryrun_twin", mode="hpc", fault_free=True, kind="world", gen=gen_dry, runner=runner2, max_jobs=6,
                 user_cmds=False, recovery=False)
profiles.PROFILE_PROPS["dryrun_twin"] = ["C07"]
profiles.CHECKS["C07"]["profiles"] = [("clean_hpc_small", 0.4), ("clean_hpc", 0.25), ("dryrun_twin", 0.2), ("resubmit_groups", 0.15)]
profiles.RULES["C07"] += ("; dry-run twin: the login round of a drawn scenario is executed with dry_run false and true, the batch "
                          "configs written must be identical job-for-job and the dry-run world must never see sbatch, a scheduler job "
                          "or a launch")


# ------------------------------------------------------------------------------------------------
# Foreign submitter rounds with a slow status query: rounds started by the user (or by other nodes)
# right after job exits, whose squeue takes tens of seconds, so that batches record their last
# results and leave the queue *inside* another round.  (A fault-free schedule: slow scheduler
# commands are ordinary on a busy cluster.)
def gen_foreign_rounds(ch, prof):
    from .scenario import Gen

    sc = gen_scenario(ch, prof)
    g = Gen(ch)
    n = len(sc["jobs"])
    sc["env"]["p_stall"] = 0.0
    sc["env"]["op_lat"] = g.pick([0.0, 0.0, 0.02])
    sc["env"]["p_preempt"] = g.pick([0.1, 0.3, 0.5])
    sc["env"]["preempt_max"] = g.pick([1.0, 10.0, 60.0])
    sc["env"]["lat"] = dict(sc["env"].get("lat") or {}, squeue=g.pick([0.0, 0.0, 3.0, 30.0, 120.0]))
    mn = g.pick([None, 2, 3, 4])
    for grp in sc["groups"]:
        grp["params"]["max_nodes"] = mn
        if not grp["params"]["time_based_batching"]:
            grp["params"]["per_node_batch_size"] = g.pick([1, 2, 3, 4])
    user = []
    for _ in range(g.rint(2, 5)):
        if g.flip(0.5):
            after = {"kind": "job_exit", "n": g.rint(1, max(1, n))}
            delay = g.pick([0.0, 0.0, 0.1, 0.5, 2.0])
        else:
            # ... or at the very moment a node records a result (several jobs of a batch often end in
            # the same poll tick: the round collects that node's file while the node is still appending)
            after = {"kind": "fs", "op": "write", "path_has": "results/results_batch_", "n": g.rint(1, max(1, n))}
            delay = g.pick([0.0, 0.0, 0.0, 0.01])
        user.append({"cmd": g.weighted([("try-submit-jobs", 3), ("show-status", 1)]), "after": after, "delay": delay,
                     "host": g.pick([None, None, "login2"])})
    # jobs of one batch that end in the same tick
    if g.flip(0.5):
        d = g.pick([1.0, 5.0, 30.0])
        for j in sc["jobs"]:
            if g.flip(0.7):
                j["dur"] = d
    sc["user"] = user
    if g.flip(0.5):
        sc["env"]["queue_wait"] = "immediate"   # batches start together, so they also end together
    return sc


profiles.profile("foreign_rounds_hooks", mode="hpc", fault_free=True, kind="world", gen=gen_foreign_rounds, max_jobs=8, min_jobs=2,
                 p_hooks=0.7)
profiles.PROFILE_PROPS["foreign_rounds_hooks"] = ["C16", "C05"]
profiles.profile("foreign_rounds", mode="hpc", fault_free=True, kind="world", gen=gen_foreign_rounds, max_jobs=8, min_jobs=2)
profiles.PROFILE_PROPS["foreign_rounds"] = ["C01", "C02", "C03", "C04", "C05", "C08", "C09"]
profiles.CHECKS["C01"]["profiles"] = [("clean_hpc", 0.85), ("foreign_rounds", 0.15)]
profiles.CHECKS["C03"]["profiles"] = [("clean_hpc", 0.55), ("clean_local", 0.25), ("foreign_rounds", 0.2)]
profiles.CHECKS["C05"]["profiles"] = [("clean_hpc", 0.8), ("foreign_rounds", 0.2)]
profiles.CHECKS["C08"]["profiles"] = [("comp_results", 0.7), ("clean_hpc", 0.15), ("foreign_rounds", 0.15)]
for _p in ("C01", "C03", "C05", "C08"):
    profiles.RULES[_p] += ("; plus the profile foreign_rounds (user rounds started right after job exits, status queries that take "
                           "tens of seconds, several small batches ending inside other rounds)")
profiles.CHECKS["C16"]["profiles"] = [("clean_hpc_hooks", 0.4), ("clean_local_hooks", 0.25), ("resubmit_hooks", 0.15),
                                      ("foreign_rounds_hooks", 0.2)]
profiles.RULES["C16"] += "; plus foreign_rounds with lifecycle commands (several nodes completing at the same time)"
