"""C07 dry-run twin: the first round executed twice, with dry_run false and true."""
import copy
import glob
import json
import os

from . import profiles
from .scenario import gen_scenario


def gen_dry(ch, prof):
    sc = gen_scenario(ch, prof)
    sc["user"] = []
    sc["env"]["p_stall"] = 0.0
    return sc


def _batches(out):
    res = {}
    for p in sorted(glob.glob(os.path.join(out, "config_batch_*.json"))):
        with open(p) as f:
            data = json.load(f)
        n = int(os.path.basename(p)[len("config_batch_"):-len(".json")])
        res[n] = [((j.get("name") if j.get("name") is not None else str(j.get("job_id"))),
                   sorted(str(b) for b in j.get("blocked_by", [])), j.get("submission_group")) for j in data.get("jobs", [])]
    return res


def runner2(scenario, prof, seed, trace=None, then_generate=False, props=()):
    """Run A (real) up to the end of submit-jobs, then B (dry run) to quiescence; compare."""
    from . import run

    grabbed = {}

    def hook_a(w):
        orig = w.driver.on_exit

        def on_exit(vp):
            if vp.role == "submit-jobs" and "a" not in grabbed:
                grabbed["a"] = _batches(w.output)
                grabbed["a_rc"] = vp.exit_code
                w.stop_flag = True
            orig(vp)

        w.driver.on_exit = on_exit

    sa = copy.deepcopy(scenario)
    pa = dict(prof, recovery=False)
    run.execute(sa, pa, seed, props=set(), world_hook=hook_a)

    sb = copy.deepcopy(scenario)
    for g in sb["groups"]:
        g["params"]["dry_run"] = True
    sb["dry_run"] = True

    def hook_b(w):
        orig = w.driver.on_exit

        def on_exit(vp):
            if vp.role == "submit-jobs" and "b" not in grabbed:
                grabbed["b"] = _batches(w.output)
                grabbed["b_rc"] = vp.exit_code
            orig(vp)

        w.driver.on_exit = on_exit

    wb = run.execute(sb, pa, seed, trace=trace, then_generate=then_generate, props=props, world_hook=hook_b)
    a, b = grabbed.get("a"), grabbed.get("b")
    if a is None or b is None:
        wb.harness_errors.append("dry-run twin: submit-jobs did not finish")
        return wb
    wb.probe("dryrun_twin")
    if a != b:
        diff = {n: (a.get(n), b.get(n)) for n in sorted(set(a) | set(b)) if a.get(n) != b.get(n)}
        wb.violation("C07", "dryrun_batches_differ", "dry-run writes other first-round batches than a real submission",
                     f"real vs dry-run: {json.dumps(diff)[:600]}")
    if len(a) >= 2:
        wb.probe("dryrun_multi_batch")
    n_sb = sum(1 for r in wb.history if r[2] == "sbatch")
    n_l = sum(1 for r in wb.history if r[2] == "job_launch")
    n_jobs = sum(1 for j in wb.slurm.order if not j.foreign)
    n_cmd = sum(1 for r in wb.history if r[2] == "spawn" and r[4].get("role") == "node")
    if n_sb or n_jobs or n_l or n_cmd:
        wb.violation("C07", "dryrun_submitted", "dry-run handed a batch to the HPC or started a job",
                     f"sbatch commands={n_sb} scheduler jobs={n_jobs} launches={n_l}")
    if grabbed.get("a_rc") != grabbed.get("b_rc"):
        wb.violation("C07", "dryrun_exit_code", "dry-run exits differently from a real submission",
                     f"{grabbed.get('a_rc')} vs {grabbed.get('b_rc')}")
    return wb


profiles.profile("dryrun_twin", mode="hpc", fault_free=True, kind="world", gen=gen_dry, runner=runner2, max_jobs=6,
                 user_cmds=False, recovery=False)
profiles.PROFILE_PROPS["dryrun_twin"] = ["C07"]
profiles.CHECKS["C07"]["profiles"] = [("clean_hpc_small", 0.45), ("clean_hpc", 0.3), ("dryrun_twin", 0.25)]
profiles.RULES["C07"] += ("; dry-run twin: the login round of a drawn scenario is executed with dry_run false and true, the batch "
                          "configs written must be identical job-for-job and the dry-run world must never see sbatch, a scheduler job "
                          "or a launch")
