#!/bin/sh
# Real child process used by the C19 real-probe mode: dumps its argv and environment
# NUL-separated to $JV_PROBE_OUT and exits with $JV_PROBE_RC.
{
  for a in "$0" "$@"; do printf '%s\0' "$a"; done
  printf -- '--JV-ENV--\0'
  env -0
} > "$JV_PROBE_OUT"
exit "$JV_PROBE_RC"
