"""Process seam: subprocess.Popen / subprocess.call for vprocs, command dispatch
(SimShell), simulated user jobs (SimJobs), lifecycle hooks, git, psutil stub."""
import collections
import os
import shlex
import subprocess

from . import kernel, seams
from .kernel import SimKilled

PIPE = subprocess.PIPE


def SimPopen(args, *pargs, **kw):
    vp = seams.cur()
    if vp is None:
        return seams.REAL["Popen"](args, *pargs, **kw)
    if vp.killed:
        raise SimKilled()
    if isinstance(args, str):
        args = shlex.split(args)
    return kernel.W.shell.popen(vp, [os.fspath(a) for a in args], kw)


def sim_call(args, *pargs, **kw):
    vp = seams.cur()
    if vp is None:
        return seams.REAL["call"](args, *pargs, **kw)
    p = SimPopen(args, **kw)
    return p.wait()


class SimProcBase:
    pid = 0
    returncode = None

    def __init__(self, w, vp, argv, kw):
        self.w = w
        self.vp = vp
        self.args = argv
        self.kw = kw
        self._want_out = kw.get("stdout") == PIPE
        self._want_err = kw.get("stderr") == PIPE

    def poll(self):
        return self.returncode

    def wait(self, timeout=None):
        raise NotImplementedError

    def communicate(self, input=None, timeout=None):
        self.wait()
        out, err = self._output()
        return (out.encode() if self._want_out else None, err.encode() if self._want_err else None)

    def _output(self):
        return "", ""

    def terminate(self):
        pass

    kill = terminate

    def __enter__(self):
        return self

    def __exit__(self, *a):
        return False


class SyncCmd(SimProcBase):
    """A short external command whose whole effect happens at one instant
    (after a drawn latency): sbatch, squeue, scancel, hooks, git, stubs."""

    def __init__(self, w, vp, argv, kw, fn, latency=0.0):
        super().__init__(w, vp, argv, kw)
        self._fn = fn
        self._lat = latency
        self._out = ""
        self._err = ""
        self.pid = w.fake_pid()

    def wait(self, timeout=None):
        if self.returncode is not None:
            return self.returncode
        w, vp = self.w, self.vp
        w.yield_point(vp, "cmd", self.args)
        if self._lat > 0:
            w.sleep(vp, self._lat)
        rc, out, err = self._fn()
        if vp.killed:
            raise SimKilled()
        self.returncode, self._out, self._err = rc, out, err
        return rc

    def _output(self):
        return self._out, self._err


class ChildCmd(SimProcBase):
    """`jade ...` / `jade-internal ...` run as a child vproc (real click code)."""

    def __init__(self, w, vp, argv, kw, child):
        super().__init__(w, vp, argv, kw)
        self.child = child
        self.pid = child.pid

    def poll(self):
        if self.child.state == kernel.EXITED:
            self.returncode = self.child.exit_code
        return self.returncode

    def wait(self, timeout=None):
        if self.returncode is None:
            self.w.wait_child(self.vp, self.child)
            self.returncode = self.child.exit_code
            self.w.emit("cmd_done", self.vp, argv=self.args[:3], rc=self.returncode, child=self.child.id)
        return self.returncode

    def _output(self):
        return self.child.stdout_text(), self.child.stderr_text()


class SimJob(SimProcBase):
    """A user job process launched by AsyncCliCommand."""

    def __init__(self, w, vp, argv, kw):
        super().__init__(w, vp, argv, kw)
        self.pid = w.fake_pid()
        env = kw.get("env") or {}
        self.name = env.get("JADE_JOB_NAME")
        self.env = dict(env)
        so, se = kw.get("stdout"), kw.get("stderr")
        self.stdout_path = getattr(so, "name", None)
        self.stderr_path = getattr(se, "name", None)
        self.host = vp.host
        self.slurm_id = vp.slurm_id
        self.node_vp = vp
        self.launch_time = w.now
        self.finish_at = None
        self.rc = None
        self.killed = False
        self.done = False
        self.reaped = False   # somebody else waited for this child: its exit status is gone

    def poll(self):
        if self.vp.killed:
            raise SimKilled()
        if self.returncode is None and self.done:
            # (subprocess: waitpid fails with ECHILD when the child was reaped elsewhere; returncode 0)
            self.returncode = 0 if self.reaped else self.rc
        return self.returncode

    def wait(self, timeout=None):
        while self.poll() is None:
            self.w.sleep(self.vp, max(0.01, self.finish_at - self.w.now))
        return self.returncode


class Shell:
    """Dispatch of external commands issued by vprocs."""

    def __init__(self, w):
        self.w = w
        self.jobs = []  # SimJob launches in order
        self.live_jobs = {}  # node vproc id -> list of SimJob
        self.cmd_counts = collections.Counter()

    # ------------------------------------------------------------------
    def popen(self, vp, argv, kw):
        w = self.w
        if not argv:
            raise FileNotFoundError("empty command")
        a0 = os.path.basename(argv[0])
        env = kw.get("env")
        if env is not None and "JADE_JOB_NAME" in env and hasattr(kw.get("stdout"), "name"):
            return self._launch_job(vp, argv, kw)
        self.cmd_counts[a0] += 1
        if a0 == "sbatch":
            lat = w.knob_latency("sbatch")
            return SyncCmd(w, vp, argv, kw, lambda: w.slurm.sbatch(vp, argv), lat)
        if a0 == "squeue":
            lat = w.knob_latency("squeue")
            return SyncCmd(w, vp, argv, kw, lambda: w.slurm.squeue(vp, argv), lat)
        if a0 == "scancel":
            lat = w.knob_latency("scancel")
            return SyncCmd(w, vp, argv, kw, lambda: w.slurm.scancel(vp, argv), lat)
        if a0 == "simhook":
            return self._hook(vp, argv, kw)
        if a0 == "simautoconfig":
            return self._autoconfig(vp, argv, kw)
        if a0 == "git":
            return SyncCmd(w, vp, argv, kw, lambda: self._git(argv))
        if a0 in ("jade", "jade-internal"):
            if a0 == "jade" and len(argv) > 1 and argv[1] in ("stats", "db"):
                self.cmd_counts["stub:jade " + argv[1]] += 1
                return SyncCmd(w, vp, argv, kw, lambda: (0, "", ""))
            return self._child(vp, argv, kw)
        # unknown program: behaves like exec of a missing file
        w.emit("cmd_unknown", vp, argv=argv[:4])
        raise FileNotFoundError(2, "No such file or directory", argv[0])

    # ------------------------------------------------------------------
    def _child(self, vp, argv, kw):
        w = self.w
        env = dict(kw["env"]) if kw.get("env") is not None else dict(vp.env)
        w.yield_point(vp, "cmd", argv)
        role = argv[1] if len(argv) > 1 else argv[0]
        if role == "pipeline" and len(argv) > 2:
            role = "pipeline " + argv[2]
        child = w.spawn(role, make_cli_target(argv), vp.host, env, parent=vp, argv=argv)
        child.cwd = kw.get("cwd") or w.cwd_for(vp)
        return ChildCmd(w, vp, argv, kw, child)

    def _git(self, argv):
        sub = argv[1] if len(argv) > 1 else ""
        if sub == "diff":
            return 0, "", ""
        if sub == "rev-parse":
            return 0, "main\n", ""
        if sub == "log":
            return 0, "commit 0123456789abcdef0123456789abcdef01234567\nAuthor: sim\n", ""
        if sub == "status":
            return 0, "# branch.oid 0123456789abcdef\n# branch.head main\n", ""
        return 0, "", ""

    def _hook(self, vp, argv, kw):
        w = self.w
        kind = argv[1] if len(argv) > 1 else "?"
        env = dict(kw["env"]) if kw.get("env") is not None else dict(vp.env)
        spec = w.scenario.get("hooks", {}).get(kind, {})
        rc = int(spec.get("rc", 0))
        dur = float(spec.get("dur", 0.0))

        def fn():
            w.emit("hook", vp, hook=kind, host=vp.host, rc=rc, slurm_id=vp.slurm_id,
                   role=vp.role, argv=argv,
                   env={k: env.get(k) for k in ("JADE_RUNTIME_OUTPUT", "JADE_SUBMISSION_GROUP",
                                                  "SLURM_JOB_ID")})
            return rc, "", ""

        return SyncCmd(w, vp, argv, kw, fn, dur)

    def _autoconfig(self, vp, argv, kw):
        """The user's auto-config script of pipeline stage k: reads the pipeline status file JADE
        points it to (recorded as an observation) and writes config-stage<k>.json into its cwd."""
        import json
        import shutil

        w = self.w
        k = int(argv[1])
        env = dict(kw["env"]) if kw.get("env") is not None else dict(vp.env)
        spec = (w.scenario.get("pipeline") or {}).get("auto") or {}
        dur = float(spec.get("dur", 0.0))
        cwd = kw.get("cwd") or w.cwd_for(vp)

        def fn():
            sf = env.get("JADE_PIPELINE_STATUS_FILE")
            status = None
            try:
                with seams.REAL["open"](sf) as f:
                    ps = json.load(f)
                status = {"stage_num": ps.get("stage_num"), "is_complete": ps.get("is_complete"),
                          "return_codes": [s.get("return_code") for s in ps.get("stages", [])]}
            except (OSError, ValueError, TypeError):
                pass
            w.emit("autoconfig", vp, stage=k, host=vp.host, role=vp.role, status=status,
                   env={"JADE_PIPELINE_STATUS_FILE": w.rel(sf) if sf else None,
                        "JADE_PIPELINE_OUTPUT_DIR": w.rel(env["JADE_PIPELINE_OUTPUT_DIR"]) if env.get("JADE_PIPELINE_OUTPUT_DIR") else None,
                        "JADE_PIPELINE_STAGE_ID": env.get("JADE_PIPELINE_STAGE_ID")})
            shutil.copyfile(os.path.join(w.shared_root, f"stage{k}_config.json"), os.path.join(cwd, f"config-stage{k}.json"))
            return 0, "", ""

        return SyncCmd(w, vp, argv, kw, fn, dur)

    # ------------------------------------------------------------------
    def _launch_job(self, vp, argv, kw):
        w = self.w
        w.yield_point(vp, "job_launch", argv)
        job = SimJob(w, vp, argv, kw)
        spec = w.job_spec(job.name)
        dur = w.job_duration(job.name, spec)
        job.rc = w.job_rc(job.name, spec, job.env) if spec else 0
        job.finish_at = w.now + dur
        probe = None
        if w.real_probe:
            probe = w.run_real_probe(argv, job.env, job.rc)
            if probe is not None:
                job.rc = probe["rc"]
        self.jobs.append(job)
        self.live_jobs.setdefault(vp.id, []).append(job)
        w.emit("job_launch", vp, name=job.name, argv=argv, host=vp.host, slurm_id=vp.slurm_id,
               env={k: job.env.get(k) for k in ("JADE_RUNTIME_OUTPUT", "JADE_JOB_NAME")},
               stdout=w.rel(job.stdout_path) if job.stdout_path else None,
               stderr=w.rel(job.stderr_path) if job.stderr_path else None,
               pid=job.pid, dur=round(dur, 3), probe=probe)
        w.job_started(job)
        w.at(job.finish_at, lambda: self._finish_job(job), "job_finish")
        return job

    def _finish_job(self, job):
        w = self.w
        if job.killed or job.done:
            return
        if job.node_vp.killed or not job.node_vp.alive:
            # the node died first: its process tree died with it
            job.killed = True
            return
        job.done = True
        w.job_side_effects(job)
        w.emit("job_exit", None, name=job.name, rc=job.rc, host=job.host, slurm_id=job.slurm_id,
               pid=job.pid)
        lst = self.live_jobs.get(job.node_vp.id)
        if lst and job in lst:
            lst.remove(job)

    def close_all(self):
        for job in self.jobs:
            f = getattr(job, "_evf", None)
            if f is not None:
                try:
                    f.close()
                except OSError:
                    pass
                job._evf = None

    def jobs_of(self, vpid):
        return [j for j in self.jobs if j.vp.id == vpid]

    def kill_jobs_of(self, vp):
        for job in self.live_jobs.pop(vp.id, []):
            if not job.done:
                job.killed = True
                f = getattr(job, "_evf", None)
                if f is not None:
                    f.close()
                    job._evf = None
                self.w.emit("job_killed", None, name=job.name, host=job.host, slurm_id=job.slurm_id)


def make_cli_target(argv):
    def target(vp):
        import click

        if os.path.basename(argv[0]) == "jade":
            from jade.cli.jade import cli
        else:
            from jade.cli.jade_internal import cli
        try:
            r = cli.main(args=list(argv[1:]), prog_name=os.path.basename(argv[0]), standalone_mode=False)
        except click.exceptions.Exit as e:
            return e.exit_code
        except click.ClickException as e:
            vp.err.append(f"Error: {e.format_message()}\n")
            return e.exit_code
        except click.Abort:
            return 1
        return r if isinstance(r, int) else 0

    return target


# ---------------------------------------------------------------------- psutil
class _NT(dict):
    def _asdict(self):
        return dict(self)

    def __getattr__(self, k):
        try:
            return self[k]
        except KeyError:
            raise AttributeError(k)


class PsutilStub:
    """Serves seeded sample sequences to jade.resource_monitor (C20)."""

    class NoSuchProcess(Exception):
        pass

    class AccessDenied(Exception):
        pass

    class TimeoutExpired(Exception):
        pass

    CPU = ("user", "nice", "system", "idle", "iowait")
    MEM = ("total", "available", "percent", "used", "free")

    def _series(self, group, names):
        w = kernel.W
        vp = w.cur if w is not None else None
        if vp is None:
            return _NT({n: 0.0 for n in names})
        return _NT({n: w.stat_sample(vp, group, n) for n in names})

    def cpu_times_percent(self, *a, **k):
        return self._series("cpu", self.CPU)

    def cpu_percent(self, *a, **k):
        w = kernel.W
        return w.stat_sample(w.cur, "cpu", "cpu_percent") if w is not None and w.cur is not None else 0.0

    def virtual_memory(self):
        return self._series("memory", self.MEM)

    def disk_io_counters(self, *a, **k):
        return self._series("disk_raw", ("read_count", "write_count", "read_bytes", "write_bytes",
                                         "read_time", "write_time"))

    def net_io_counters(self, *a, **k):
        return self._series("net_raw", ("bytes_recv", "bytes_sent", "dropin", "dropout", "errin",
                                        "errout", "packets_recv", "packets_sent"))

    def Process(self, pid):
        w = kernel.W
        vp = w.cur if w is not None else None
        if vp is None:
            raise PsutilStub.NoSuchProcess(pid)
        name = w.stat_proc_name(vp, pid)
        if name is None:
            raise PsutilStub.NoSuchProcess(pid)
        return _StubProc(w, vp, pid, name)


class _StubProc:
    """psutil.Process of a live simulated job (or of a process registered by a component
    simulation): serves seeded rss / cpu_percent series, recorded as ground truth."""

    def __init__(self, w, vp, pid, name):
        self.w, self.vp, self.pid, self.name = w, vp, pid, name

    def _alive(self):
        if self.w.stat_proc_name(self.vp, self.pid) is None:
            raise PsutilStub.NoSuchProcess(self.pid)

    def _zombie(self):
        job = self.w.stat_job(self.vp, self.pid)
        return job is not None and job.done

    def _served(self, stat, v):
        self.w.stats_served.setdefault((self.vp.id, "proc:" + self.name, stat), []).append(v)
        return v

    def wait(self, timeout=None):
        """psutil semantics for a child of the caller: waiting reaps it (the exit status is consumed)."""
        self._alive()
        job = self.w.stat_job(self.vp, self.pid)
        if job is None or not job.done:
            if timeout is not None:
                raise PsutilStub.TimeoutExpired(timeout)
            raise PsutilStub.TimeoutExpired(0)
        job.reaped = True
        self.w.probe("child_reaped_by_monitor")
        return job.rc

    def oneshot(self):
        import contextlib

        return contextlib.nullcontext()

    def cpu_percent(self, interval=None):
        self._alive()
        if interval:
            # the priming call of ResourceMonitor._get_process: psutil blocks for the interval
            self.w.sleep(self.vp, float(interval))
            return 0.0
        if self._zombie():
            return self._served("cpu_percent", 0.0)   # exited, not yet waited for: all zeros
        return self.w.stat_sample(self.vp, "proc:" + self.name, "cpu_percent")

    def memory_info(self):
        self._alive()
        if self._zombie():
            return _NT(rss=int(self._served("rss", 0.0)))
        return _NT(rss=int(self.w.stat_sample(self.vp, "proc:" + self.name, "rss") * 1000))

    def children(self, recursive=False):
        self._alive()
        return [_NT(pid=c) for c in self.w.stat_children.get(self.pid, [])]
