"""Model of filelock.SoftFileLock (observable protocol on the same marker path).

Two behaviours, chosen per run (World.lock_behaviour):
  never_break  - an existing marker is never removed by a contender
  break_stale  - filelock 3.32: a contender removes a well-formed marker naming its own
                 host and a dead pid, or a malformed/empty marker older than 2.0 s.
Outside a vproc (observer mode, harness code) the lock is a no-op.
"""
import os

from filelock import Timeout

from . import kernel
from .kernel import SimKilled
from . import seams

MALFORMED_AGE = 2.0
POLL = 0.05


class SimSoftFileLock:
    def __init__(self, lock_file, timeout=-1, **kwargs):
        self.lock_file = os.fspath(lock_file)
        self.timeout = timeout
        self._held = 0
        self._gen = None
        self._vp = None

    # -- helpers -----------------------------------------------------------
    def _try_create(self, w, vp):
        flags = os.O_WRONLY | os.O_CREAT | os.O_EXCL | os.O_TRUNC
        try:
            fd = seams.REAL["os.open"](self.lock_file, flags, 0o644)
        except FileExistsError:
            return False
        except FileNotFoundError:
            # parent directory missing: the library creates it
            seams.REAL["os.makedirs"](os.path.dirname(self.lock_file), exist_ok=True)
            fd = seams.REAL["os.open"](self.lock_file, flags, 0o644)
        try:
            os.write(fd, f"{vp.pid}\n{vp.host}\n".encode())
        finally:
            os.close(fd)
        self._gen = w.note_mtime(self.lock_file)
        return True

    def _inspect(self, w, vp):
        """break_stale behaviour.  Returns (removed, recheck_at): recheck_at is the virtual
        time at which a malformed marker becomes old enough to be healed (else None)."""
        try:
            with seams.REAL["open"](self.lock_file, "rb") as f:
                data = f.read(2048)
        except OSError:
            return True, None  # vanished meanwhile: retry the create
        holder = None
        try:
            lines = data.decode("utf-8").strip().splitlines()
            if len(lines) in (2, 3):
                pid = int(lines[0])
                if 1 <= pid <= 2**31 - 1:
                    holder = (pid, lines[1])
        except (UnicodeDecodeError, ValueError):
            holder = None
        if holder is None:
            thr = w.mtime_of(self.lock_file) + MALFORMED_AGE
            if w.now >= thr:
                return self._unlink_marker(w, vp, "malformed"), None
            return False, thr
        pid, host = holder
        if host == vp.host:
            owner = w.pids.get((host, pid))
            if owner is None or not owner.alive:
                return self._unlink_marker(w, vp, "dead_owner"), None
        return False, None

    def _unlink_marker(self, w, vp, why):
        try:
            seams.REAL["os.unlink"](self.lock_file)
        except OSError:
            return False
        w.emit("lock_break", vp, path=w.rel(self.lock_file), why=why)
        w.probe("stale_marker_broken")
        w.wake_lock_waiters(self.lock_file)
        return True

    # -- API used by JADE ----------------------------------------------------
    def acquire(self, timeout=None, poll_interval=POLL, **kwargs):
        vp = seams.cur()
        if vp is None:
            self._held += 1
            return self
        if vp.killed:
            raise SimKilled()
        w = kernel.W
        if self._held and self._vp is vp:
            self._held += 1
            return self
        if timeout is None:
            timeout = self.timeout
        start = w.now
        deadline = None if timeout is None or timeout < 0 else start + timeout
        waited = False
        while True:
            w.yield_point(vp, "lock_acquire", self.lock_file)
            if w.lock_fault(vp, self.lock_file):
                w.emit("lock_timeout", vp, path=w.rel(self.lock_file), injected=True)
                raise Timeout(self.lock_file)
            if self._try_create(w, vp):
                break
            recheck = None
            if w.lock_behaviour == "break_stale":
                removed, recheck = self._inspect(w, vp)
                if removed:
                    continue
            if deadline is not None and w.now >= deadline:
                w.emit("lock_timeout", vp, path=w.rel(self.lock_file), injected=False)
                raise Timeout(self.lock_file)
            # wait: woken by marker removal, by a process death, at the age threshold of a
            # malformed marker, or at the deadline (observationally the library's poll loop)
            until = deadline if deadline is not None else w.now + 86400.0
            if recheck is not None:
                until = min(until, recheck)
            if not waited:
                w.emit("lock_wait", vp, path=w.rel(self.lock_file))
                waited = True
            w.wait_lock(vp, self.lock_file, max(until, w.now + POLL))
        self._held = 1
        self._vp = vp
        w.emit("lock_acquire", vp, path=w.rel(self.lock_file), waited=round(w.now - start, 3))
        return self

    def release(self, force=False):
        vp = seams.cur()
        if vp is None or self._vp is None:
            self._held = max(0, self._held - 1)
            return
        if vp.killed:
            raise SimKilled()
        if self._held == 0:
            return
        self._held -= 1
        if self._held and not force:
            return
        self._held = 0
        w = kernel.W
        w.yield_point(vp, "lock_release", self.lock_file)
        removed = False
        try:
            if w.file_gen.get(self.lock_file) == self._gen and os.path.lexists(self.lock_file):
                seams.REAL["os.unlink"](self.lock_file)
                removed = True
        except OSError:
            pass
        self._vp = None
        w.emit("lock_release", vp, path=w.rel(self.lock_file), removed=removed)
        w.wake_lock_waiters(self.lock_file)

    @property
    def is_locked(self):
        return self._held > 0

    def __enter__(self):
        self.acquire()
        return self

    def __exit__(self, *a):
        self.release()
        return False
