"""SimWorld: one simulated JADE deployment (kernel + seams state + SLURM + shell +
fault plan + user driver)."""
import errno
import json
import os
import shutil

from . import kernel, seams
from .kernel import World, Chooser, SimKilled
from .proc import Shell, make_cli_target
from .simslurm import SimSlurm, ACTIVE

SUBMITTER_ROLES = ("submit-jobs", "try-submit-jobs", "cancel-jobs", "resubmit-jobs",
                   "pipeline submit", "pipeline submit-next-stage")

DEFAULT_ENV = {
    "lock_behaviour": "break_stale",   # or never_break
    "list_mode": 0,                    # 0 sorted 1 reversed 2 shuffled
    "stick": 0.85,
    "queue_wait": "short",             # immediate | short | long | mixed
    "terminal_listed_s": 0.0,          # how long plain squeue lists terminal states
    "min_job_age": 300.0,              # until `squeue -j` says invalid job id
    "squeue_pad": 20,
    "lat": {"sbatch": 0.0, "squeue": 0.0, "scancel": 0.0},
    "skew": 0.0,                       # max abs host clock skew (s)
    "host_pool": 0,
    "foreign_jobs": 0,
    "cpus_on_node": 2,
    "cpu_count": 2,
    "p_stall": 0.0,
    "stall_max": 60.0,
    "p_exotic_state": 0.0,             # squeue shows another non-finished state name for a pending / running job
    "stale_jade_env": False,
    "p_preempt": 0.0,                  # a process is descheduled for a moment at a lock boundary (legal behaviour)
    "preempt_max": 1.0,
    "epilog_max": 20.0,
    "p_configuring": 0.2,
    "enforce_walltime": False,
    "first_job_id": 8100000,
    "p_suspend": 0.0,
    "op_lat": 0.0,                     # max latency of every seam operation (slow shared file system)
}


class Faults:
    """Fault plan.
      plan["kinds"]  kinds whose eligible sites are counted (and may fire)
      plan["sites"]  explicit faults [{"kind":..., "n": ordinal among the eligible sites of that kind, ...}]
                     (no Chooser draws before the fault: the prefix of the run equals the fault-free pilot)
      plan["p"]      {kind: probability per eligible site} for seeded random placement, plan["budget"] faults max
    """

    def __init__(self, w, plan):
        self.w = w
        self.plan = plan or {}
        self.p = dict(self.plan.get("p", {}))
        self.budget = int(self.plan.get("budget", 0))
        self.sites = [dict(s) for s in self.plan.get("sites", [])]
        self.kinds = set(self.plan.get("kinds", [])) | set(self.p) | {s["kind"] for s in self.sites}
        self.counters = {}
        self.hot = {}
        self.fired = []
        self.series = {}

    def _decide(self, kind, vp, detail=None):
        n = self.counters.get(kind, 0)
        self.counters[kind] = n + 1
        if self.w.round_in_flight():
            # a round has handed a batch to the HPC and not yet persisted it (submitter.lock exists):
            # faults here meet in-flight state; the sweep samples these sites preferentially
            self.hot.setdefault(kind, []).append(n)
        for s in self.sites:
            if s["kind"] == kind and s["n"] == n and not s.get("_done"):
                s["_done"] = True
                self._fire(kind, vp, detail, s)
                return s
        p = self.p.get(kind, 0.0)
        if p > 0 and self.budget > 0:
            if self.w.ch.flip(p, "fault:" + kind):
                self.budget -= 1
                s = {"kind": kind, "n": n}
                self._fire(kind, vp, detail, s)
                return s
        return None

    def _fire(self, kind, vp, detail, s):
        w = self.w
        w.fault_fired(kind)
        self.fired.append({"kind": kind, "n": s.get("n"), "vp": vp.id if vp is not None else None,
                           "role": vp.role if vp is not None else None, "detail": _short(detail),
                           "seq": w.seq, "mode": s.get("mode")})
        w.emit("fault", vp, fault=kind, n=s.get("n"), detail=_short(detail), mode=s.get("mode"))

    # -- yield-point faults -------------------------------------------------
    def at_yield(self, vp, kind, detail):
        w = self.w
        kinds = self.kinds
        if "kill_submitter" in kinds and w.in_submitter_subtree(vp):
            s = self._decide("kill_submitter", vp, (kind, _short(detail)))
            if s:
                victim = vp
                scope = s.get("scope") or "command"
                x = vp
                while x is not None:
                    if x.role in SUBMITTER_ROLES:
                        victim = x
                    x = x.parent
                if scope == "node" and w.node_job(vp) is not None:
                    j = w.node_job(vp)
                    w.after(0.0, lambda: w.slurm.end_abnormally(j, "TIMEOUT"), "fault_kill_node")
                    # the vproc itself stops here, before the operation
                    w.request_kill(victim, "fault:kill_submitter", True)
                else:
                    w.request_kill(victim, "fault:kill_submitter", True)
                return
        if "kill_node" in kinds and w.node_job(vp) is not None and not w.in_submitter_subtree(vp):
            s = self._decide("kill_node", vp, (kind, _short(detail)))
            if s:
                j = w.node_job(vp)
                why = s.get("state") or w.ch.pick(
                    ["NODE_FAIL", "TIMEOUT", "PREEMPTED", "OUT_OF_MEMORY", "FAILED", "CANCELLED"], "node_end_state")
                w.after(0.0, lambda: w.slurm.end_abnormally(j, why), "fault_kill_node")
                w.request_kill(j.node_vp, "fault:kill_node", True)
                return
        ol = w.envk["op_lat"]
        if ol > 0 and kind != "lock_acquire":  # (a lock poll every 50 ms is not slowed to seconds: no artificial starvation)
            # every operation takes a drawn time: other processes make *timed* progress inside
            # the windows between two operations of this one
            d = w.ch.delay(0.0, ol, "op_lat", steps=8)
            if d > 0:
                w.sleep(vp, d)
        ppr = w.envk["p_preempt"]
        if ppr > 0 and kind in ("lock_acquire", "lock_release") and w.ch.flip(ppr, "preempt"):
            # critical sections are where JADE's processes race: a short nap right before taking or right
            # after leaving one lets the others run whole sections in between (few, well-placed
            # pre-emption points instead of uniformly random ones)
            d = w.ch.delay(w.envk["preempt_max"] / 100.0, w.envk["preempt_max"], "preempt_len", log=True)
            w.fault_fired("preempt")
            w.sleep(vp, d)
        pst = w.envk["p_stall"]
        if pst > 0 and w.ch.flip(pst, "stall"):
            d = w.ch.delay(1.0, w.envk["stall_max"], "stall_len", log=True)
            w.fault_fired("stall")
            w.emit("fault", vp, fault="stall", d=round(d, 3))
            w.sleep(vp, d)

    def lock(self, vp, path):
        if "lock_timeout" not in self.kinds or not self.w.in_submitter_subtree(vp):
            return False
        return self._decide("lock_timeout", vp, self.w.rel(path)) is not None

    def write(self, vp, path, n):
        if "write_fail" not in self.kinds or not self.w.in_submitter_subtree(vp):
            return None
        s = self._decide("write_fail", vp, self.w.rel(path))
        if s is None:
            return None
        keep = s.get("keep")
        if keep is None:
            keep = self.w.ch.choose(3, None, "write_keep")
        keep = {0: 0, 1: n // 2, 2: max(0, n - 1)}.get(keep, 0)
        return min(keep, n), errno.EDQUOT

    def op(self, vp, name, path):
        return None

    # -- command faults -------------------------------------------------------
    def _series(self, kind, vp, argv, attempt):
        """Decide once per retry series how the attempts fail."""
        key = (kind, vp.id)
        if attempt == 1:
            s = self._decide(kind, vp, _short(argv))
            if s is None:
                self.series.pop(key, None)
                return None
            mode = s.get("mode")
            if mode is None:
                mode = self.w.ch.pick(self.plan.get("modes_" + kind, ["all", "k"]), kind + "_mode")
            k = 99
            if mode == "k":
                k = s.get("k") or (1 + self.w.ch.choose(6, None, kind + "_k"))
            self.series[key] = (mode, k)
            self.fired[-1]["mode"] = mode
            self.fired[-1]["k"] = k
        st = self.series.get(key)
        if st is None:
            return None
        mode, k = st
        if mode == "k":
            return "transient" if attempt <= k else None
        if mode == "all":
            return "transient"
        return mode  # "permanent" | "garbage"

    def sbatch(self, vp, argv, attempt, info):
        if "sbatch_fail" not in self.kinds:
            return None
        return self._series("sbatch_fail", vp, argv, attempt)

    def squeue(self, vp, argv, attempt):
        if "squeue_fail" not in self.kinds:
            return None
        return self._series("squeue_fail", vp, argv, attempt)

    def scancel(self, vp, argv):
        if "scancel_fail" not in self.kinds:
            return False
        return self._decide("scancel_fail", vp, _short(argv)) is not None

    def garbage_text(self):
        return self.w.ch.pick(["", "Submitted batch job\n", "sbatch: queued\n", "Submitted batch job abc\n",
                               "\n\n"], "garbage")


def _short(x):
    if isinstance(x, (list, tuple)):
        return [(_short(y)) for y in x][:6]
    if isinstance(x, str) and len(x) > 120:
        return x[-120:]
    return x


class SimWorld(World):
    def __init__(self, scenario, chooser, root, props=(), max_steps=30000, debug=False):
        envk = dict(DEFAULT_ENV)
        envk.update(scenario.get("env", {}))
        lat = dict(DEFAULT_ENV["lat"])
        lat.update(envk.get("lat") or {})
        envk["lat"] = lat
        super().__init__(chooser, max_steps=max_steps, stick=float(envk["stick"]))
        self.debug = debug
        self.scenario = scenario
        self.envk = envk
        self.root = root
        self.shared_root = os.path.join(root, "shared") + "/"
        self.local_root = os.path.join(root, "local")
        os.makedirs(self.shared_root, exist_ok=True)
        os.makedirs(self.local_root, exist_ok=True)
        self.registry_file = os.path.join(os.path.dirname(root), "jade-registry.json")
        self.output = os.path.join(self.shared_root, "output")
        self.config_file = os.path.join(self.shared_root, "config.json")
        self.lock_behaviour = envk["lock_behaviour"]
        self.list_mode = int(envk["list_mode"])
        self.squeue_pad = int(envk["squeue_pad"])
        self.enforce_walltime = bool(envk["enforce_walltime"])
        self.real_probe = bool(scenario.get("real_probe", False))
        self.file_mtime = {}
        self.file_gen = {}
        self.uuid_counter = 0
        self._fake_pid = 70000
        self.shell = Shell(self)
        self.slurm = SimSlurm(self, envk)
        self.faults = Faults(self, scenario.get("faults"))
        self.yield_hook = self._yield_hook
        self.attempts = {}
        self.jobspec = {j["name"]: j for j in scenario.get("jobs", [])}
        for st in scenario.get("pipeline", {}).get("stages", []) if scenario.get("pipeline") else []:
            for j in st.get("jobs", []):
                self.jobspec[j["name"]] = j
        self.stats_served = {}
        self.stat_patterns = {}
        self.stat_procs = {}      # component simulations: pid -> name of a registered process
        self.stat_children = {}   # pid -> child pids
        self.props = set(props)
        self.user_cmds = []
        self.user_script = list(scenario.get("user", []))
        self.recovery_count = 0
        self.driver = None
        self.login_host = "login1"
        self.epoch = 0
        skew = float(envk["skew"])
        self._skew_max = skew

    # ------------------------------------------------------------------ paths
    def rel(self, p):
        if p is None:
            return None
        p = os.fspath(p)
        if p.startswith(self.shared_root):
            return p[len(self.shared_root):]
        if p.startswith(self.root):
            return "~" + p[len(self.root):]
        return p

    def cwd_for(self, vp):
        if vp is not None and vp.cwd:
            return vp.cwd
        return self.shared_root.rstrip("/")

    def local_dir(self, name):
        d = os.path.join(self.local_root, name)
        os.makedirs(d, exist_ok=True)
        return d

    def local_dir_for(self, vp):
        return self.local_dir(vp.host)

    def cpu_count_for(self, vp):
        return int(self.envk["cpu_count"])

    def cpus_on_node(self, j):
        return int(self.envk["cpus_on_node"])

    def fake_pid(self):
        self._fake_pid += 1
        return self._fake_pid

    # ------------------------------------------------------------------ fs seam support
    def fs_yield(self, vp, op, path):
        self.yield_point(vp, "fs:" + op, path)

    def note_mtime(self, p):
        self.file_mtime[p] = self.now
        g = self.file_gen.get(p, 0) + 1
        self.file_gen[p] = g
        return g

    def mtime_of(self, p):
        return self.file_mtime.get(p, self.t0)

    def on_fs_change(self, p, op):
        if p.endswith(".lock") and op in ("remove", "unlink"):
            self.wake_lock_waiters(p)

    def order_listing(self, items):
        if self.list_mode == 0 or len(items) < 2:
            return sorted(items)
        return self.ch.permute(items, self.list_mode, "listing")

    def write_fault(self, vp, path, n):
        return self.faults.write(vp, path, n)

    def op_fault(self, vp, name, path):
        return self.faults.op(vp, name, path)

    def lock_fault(self, vp, path):
        return self.faults.lock(vp, path)

    def _yield_hook(self, vp, kind, detail):
        self.faults.at_yield(vp, kind, detail)

    # ------------------------------------------------------------------ process helpers
    def root_role(self, vp):
        """Role of the outermost command this vproc belongs to."""
        x = vp
        while x.parent is not None:
            x = x.parent
        return x.role

    def in_submitter_subtree(self, vp):
        x = vp
        while x is not None:
            if x.role in SUBMITTER_ROLES:
                return True
            x = x.parent
        return False

    def node_job(self, vp):
        x = vp
        while x is not None:
            j = x.tags.get("slurm_job")
            if j is not None:
                return j
            x = x.parent
        return None

    def on_vproc_exit(self, vp):
        if vp.role == "node" and not vp.killed:
            self.slurm.node_exited(vp)
        if vp.killed:
            self.shell.kill_jobs_of(vp)
        self.wake_lock_waiters()
        if self.driver is not None:
            self.driver.on_exit(vp)

    def shell_kill_tree(self, vp, reason):
        self.kill(vp, reason, True)

    def cmd_attempt(self, vp, argv):
        """Ordinal of this execution within a retry series (same vproc, same argv, back to back)."""
        key = tuple(argv)
        last = self.attempts.get(vp.id)
        n = last[1] + 1 if last is not None and last[0] == key else 1
        self.attempts[vp.id] = (key, n)
        return n

    def cmd_series_end(self, vp):
        self.attempts.pop(vp.id, None)

    # ------------------------------------------------------------------ knobs
    def knob_latency(self, which):
        mx = float(self.envk["lat"].get(which, 0.0))
        if mx <= 0:
            return 0.0
        return self.ch.delay(0.0, mx, "lat_" + which)

    def queue_wait(self):
        mode = self.envk["queue_wait"]
        if mode == "immediate":
            return self.ch.delay(0.0, 1.0, "qwait", steps=8)
        if mode == "short":
            return self.ch.delay(0.5, 120.0, "qwait")
        if mode == "long":
            return self.ch.delay(30.0, 6 * 3600.0, "qwait", log=True)
        return self.ch.delay(0.1, 3 * 3600.0, "qwait", log=True)

    def terminal_listed_s(self):
        return float(self.envk["terminal_listed_s"])

    def min_job_age(self):
        return max(float(self.envk["min_job_age"]), self.terminal_listed_s())

    # ------------------------------------------------------------------ jobs
    def job_spec(self, name):
        return self.jobspec.get(name)

    def job_duration(self, name, spec):
        if not spec:
            return 1.0
        return float(spec.get("dur", 1.0))

    def job_rc(self, name, spec, env):
        rcs = spec.get("rcs")
        if rcs:
            ep = 0
            octx = getattr(self, "octx", None)
            if octx is not None:
                sub = octx.sub_for_abs(env.get("JADE_RUNTIME_OUTPUT"))
                ep = sub.epoch if sub is not None else 0
            return int(rcs[min(ep, len(rcs) - 1)])
        return int(spec.get("rc", 0))

    def _job_event_lines(self, job, spec, n):
        lines = []
        for i in range(n):
            ev = {"category": "user", "data": {"i": i, "job": job.name}, "event_class": "StructuredLogEvent",
                  "message": f"user event {i}", "name": spec.get("event_name", "user_event"),
                  "source": job.name,
                  "timestamp": str(seams.SimDateTime.fromtimestamp(job.launch_time + (i + 1) * 0.001))}
            lines.append(json.dumps(ev, sort_keys=True))
        return lines

    def job_started(self, job):
        """A job that logs structured events opens its events.log when it starts, writes its first event
        and keeps the file open until it exits (as the JADE event logger of a job process does)."""
        spec = self.jobspec.get(job.name) or {}
        n = int(spec.get("events", 0))
        out = job.env.get("JADE_RUNTIME_OUTPUT")
        if n >= 2 and out:
            d = os.path.join(out, "job-outputs", job.name)
            seams.REAL["os.makedirs"](d, exist_ok=True)
            path = os.path.join(d, "events.log")
            job._evf = seams.REAL["open"](path, "a")
            ln = self._job_event_lines(job, spec, n)[0]
            job._evf.write(ln + "\n")
            job._evf.flush()
            job._ev_written = 1
            self.emit("event", None, path=self.rel(path), line=ln, job=job.name)

    def job_side_effects(self, job):
        spec = self.jobspec.get(job.name) or {}
        n = int(spec.get("events", 0))
        out = job.env.get("JADE_RUNTIME_OUTPUT")
        if n and out:
            d = os.path.join(out, "job-outputs", job.name)
            path = os.path.join(d, "events.log")
            lines = self._job_event_lines(job, spec, n)
            f = getattr(job, "_evf", None)
            if f is not None:
                # the handle opened at start: if somebody moved or unlinked the file meanwhile, these lines
                # go to the old inode
                lines = lines[getattr(job, "_ev_written", 0):]
                job._evf = None
            else:
                os.makedirs(d, exist_ok=True)
                f = open(path, "a")
            with f:
                for ln in lines:
                    f.write(ln + "\n")
            for ln in lines:
                self.emit("event", None, path=self.rel(path), line=ln, job=job.name)

    def run_real_probe(self, argv, env, rc):
        """C19 real-probe mode: execute the launch for real (synchronously, so that nothing
        depends on timing) and report what the child process observed and returned."""
        import subprocess

        if not argv or os.path.basename(argv[0]) != "probe.sh":
            return None
        self._probe_n = getattr(self, "_probe_n", 0) + 1
        out = os.path.join(self.local_root, f"probe-{self._probe_n}.bin")
        env2 = {k: v for k, v in env.items() if isinstance(v, str)}
        env2.update(JV_PROBE_OUT=out, JV_PROBE_RC=str(rc))
        try:
            p = seams.REAL["Popen"](argv, env=env2, stdout=subprocess.DEVNULL, stderr=subprocess.DEVNULL)
            real_rc = p.wait()
            with open(out, "rb") as f:
                parts = f.read().split(b"\0")
        except OSError as e:
            return {"rc": 127, "argv": None, "env": {}, "error": str(e)}
        i = parts.index(b"--JV-ENV--")
        args = [x.decode("utf-8", "surrogateescape") for x in parts[:i]]
        envd = {}
        for kv in parts[i + 1:]:
            if b"=" in kv:
                k, v = kv.split(b"=", 1)
                envd[k.decode()] = v.decode("utf-8", "surrogateescape")
        self.probe("real_probe_runs")
        return {"rc": real_rc, "argv": args, "env": {k: envd.get(k) for k in ("JADE_RUNTIME_OUTPUT", "JADE_JOB_NAME")}}

    # ------------------------------------------------------------------ stats (C20)
    def round_in_flight(self):
        return os.path.exists(os.path.join(self.output, "submitter.lock"))

    def stat_proc_name(self, vp, pid):
        """Name under which the samples of process `pid` are recorded, None if there is no such
        live process on the caller's node."""
        if pid in self.stat_procs:
            return self.stat_procs[pid]
        job = self.stat_job(vp, pid)
        return job.name if job is not None else None

    def stat_job(self, vp, pid):
        """The simulated job process `pid` on the caller's node while it is in the process table:
        running, or exited and not yet waited for by its parent (a zombie)."""
        x = vp
        while x is not None:
            for job in self.shell.jobs_of(x.id):
                if job.pid == pid and not job.killed and job.returncode is None:
                    return job
            x = x.parent
        return None

    def stat_sample(self, vp, group, name):
        key = (vp.id, group, name)
        lst = self.stats_served.setdefault(key, [])
        pat = self.stat_patterns.get(key)
        if pat is None:
            pats = self.scenario.get("stat_patterns") or ["random"]
            pat = self.ch.pick(pats, "stat_pattern") if len(pats) > 1 else pats[0]
            self.stat_patterns[key] = pat
        i = len(lst)
        h = (hash_int(f"{self.ch.seed}/{key}/{i}") % 1000) / 10.0
        base = (hash_int(f"{self.ch.seed}/{key}") % 500) / 10.0 + 1.0
        if pat == "increasing":
            v = base + i * 1.5
        elif pat == "decreasing":
            v = base + 200.0 - i * 1.5
        elif pat == "constant":
            v = base
        elif pat == "zero":
            v = 0.0
        elif pat == "spiky":
            v = [0.0, base, 2 * base, 0.0, base / 2][hash_int(f"{self.ch.seed}/{key}/{i}/s") % 5]
        else:
            v = h
        lst.append(v)
        return v

    # ------------------------------------------------------------------ commands
    def base_env(self, host):
        env = {"HOME": self.local_dir("home-" + host), "USER": "root", "JADE_REGISTRY": self.registry_file,
               "PATH": "/usr/bin"}
        if self.envk.get("stale_jade_env"):
            # the user's shell still exports the variables of an outer JADE job (a JADE run nested in a JADE job,
            # or left over from a session); sbatch --export=ALL carries them to the compute nodes
            env["JADE_JOB_NAME"] = "outer-job"
            env["JADE_RUNTIME_OUTPUT"] = "/projects/outer/output"
        return env

    def run_user_cmd(self, argv, host=None, tag=None):
        host = host or self.login_host
        role = argv[1] if len(argv) > 1 else argv[0]
        if role == "pipeline" and len(argv) > 2:
            role = "pipeline " + argv[2]
        vp = self.spawn(role, make_cli_target(argv), host, self.base_env(host), parent=None, argv=argv)
        vp.tags["user_cmd"] = tag or role
        self.user_cmds.append(vp)
        self.emit("user", vp, argv=[self.rel(a) if a.startswith("/") else a for a in argv], tag=tag)
        return vp

    def simulate(self):
        kernel.W = self
        try:
            self.run()
        finally:
            kernel.W = None

    def cleanup(self):
        shutil.rmtree(self.root, ignore_errors=True)


def hash_int(s):
    import hashlib

    return int.from_bytes(hashlib.blake2b(s.encode(), digest_size=8).digest(), "big")
