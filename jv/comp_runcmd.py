"""C18 component simulations:
  * run_command retry loop on the process seam and the virtual clock;
  * HpcManager.check_statuses()/check_status() on SimSlurm tables over the full SLURM state
    vocabulary and drawn column padding;
  * SlurmManager.submit() against drawn sbatch responses.
plus a world profile with abnormal batch endings, SUSPENDED batches and flaky sbatch/squeue."""
import copy
import os
import shutil

from . import kernel, profiles
from .kernel import Chooser
from .proc import SyncCmd
from .scenario import Gen, gen_scenario
from .simslurm import SlurmJob

ALL_STATES = ["PENDING", "CONFIGURING", "RUNNING", "SUSPENDED", "COMPLETING", "COMPLETED", "CANCELLED", "FAILED",
              "TIMEOUT", "NODE_FAIL", "PREEMPTED", "OUT_OF_MEMORY", "BOOT_FAIL", "DEADLINE", "REQUEUED", "RESIZING",
              "REVOKED", "SIGNALING", "SPECIAL_EXIT", "STAGE_OUT", "STOPPED", "RESV_DEL_HOLD", "REQUEUE_FED",
              "REQUEUE_HOLD"]
ERR_TEXTS = ["", "Socket timed out on send/recv operation", "Invalid job id specified", "Invalid account",
             "slurm_load_jobs error: Unable to contact slurm controller (connect failure)", "permission denied"]


def gen(ch, prof):
    g = Gen(ch)
    cmds = []
    for i in range(g.rint(1, 4)):
        outcomes = []
        for k in range(9):
            ok = g.flip(0.25) if k < 8 else True
            outcomes.append({"rc": 0 if ok else g.pick([1, 2, 127, 255]), "err": "" if ok else g.pick(ERR_TEXTS),
                             "out": g.pick(["", "ok", "line1\nline2\n"]), "dur": g.pick([0.0, 0.0, 0.3, 4.0])})
        use_output = g.flip(0.7)
        cmds.append({"outcomes": outcomes, "num_retries": g.pick([0, 1, 2, 3, 6]),
                     "retry_delay_s": g.pick([0.5, 2.0, 10.0]), "use_output": use_output,
                     "error_strings": ([g.pick(ERR_TEXTS[1:])] if use_output and g.flip(0.5) else None)})
    table = []
    for i in range(g.rint(0, 8)):
        table.append({"id": str(1000 + i * 97 + g.rint(0, 50)), "state": g.pick(ALL_STATES), "mine": g.flip(0.7)})
    queries = []
    for _ in range(g.rint(1, 5)):
        kind = g.pick(["all", "one", "one_absent"])
        queries.append({"kind": kind, "i": g.rint(0, 7)})
    sb = []
    for _ in range(g.rint(1, 4)):
        sb.append(g.pick([{"rc": 0, "out": "Submitted batch job 12345\n"}, {"rc": 0, "out": "Submitted batch job 7 on cluster x\n"},
                          {"rc": 0, "out": ""}, {"rc": 0, "out": "Submitted batch job\n"}, {"rc": 0, "out": "queued\n"},
                          {"rc": 0, "out": "sbatch: Submitted batch job 99\n"}, {"rc": 1, "out": "Submitted batch job 5\n"},
                          {"rc": 0, "out": "Submitted batch job abc\n"}]))
    env = {"squeue_pad": g.pick([20, 12, 1, 40, 9]), "stick": 0.8}
    return {"kind": "comp_runcmd", "cmds": cmds, "table": table, "queries": queries, "sbatch": sb, "env": env,
            "jobs": [], "groups": []}


def expected_executions(c):
    n = c["num_retries"] + 1
    for i, o in enumerate(c["outcomes"][:n]):
        if o["rc"] == 0:
            return i + 1
        if c["num_retries"] > 0 and c["error_strings"] and c["use_output"] and any(e in o["err"] for e in c["error_strings"]):
            return i + 1
    return min(n, len(c["outcomes"]))


def runner(scenario, prof, seed, trace=None, then_generate=False, props=()):
    from . import run
    from .world import SimWorld

    run.prepare_process()
    from jade.utils.run_command import run_command
    from jade.hpc.hpc_manager import HpcManager
    from jade.hpc.common import HpcJobStatus
    from jade.hpc.slurm_manager import SlurmManager
    from jade.enums import Status
    from jade.models import SubmissionGroup, SubmitterParams

    run._RUN_N += 1
    root = os.path.join(run.scratch_base(), f"r{run._RUN_N % 1000000:06d}")
    shutil.rmtree(root, ignore_errors=True)
    os.makedirs(root)
    ch = Chooser(f"run/{seed}", trace=trace, then_generate=then_generate)
    w = SimWorld(scenario, ch, root, props=props, max_steps=20000)
    os.makedirs(w.output)
    execs = {}

    def bad(oracle, key, msg):
        w.violation("C18", oracle, key, msg)

    # ---- scripted command on the process seam
    orig_popen = w.shell.popen

    def popen(vp, argv, kw):
        if os.path.basename(argv[0]) == "simcmd":
            cid = int(argv[1])
            c = scenario["cmds"][cid]
            lst = execs.setdefault(cid, [])
            i = len(lst)
            o = c["outcomes"][min(i, len(c["outcomes"]) - 1)] if i < len(c["outcomes"]) else {"rc": 1, "err": "exhausted", "out": "", "dur": 0}

            def fn():
                lst.append(w.now)
                w.emit("simcmd", vp, cid=cid, attempt=i + 1, rc=o["rc"])
                return o["rc"], o["out"], o["err"]

            return SyncCmd(w, vp, argv, kw, fn, o.get("dur", 0.0))
        if os.path.basename(argv[0]) == "sbatch" and "sb_script" in vp.tags:
            r = vp.tags["sb_script"]

            def fn2():
                w.emit("simsbatch", vp, rc=r["rc"])
                return r["rc"], r["out"], "" if r["rc"] == 0 else "sbatch: error: x\n"

            return SyncCmd(w, vp, argv, kw, fn2, 0.0)
        return orig_popen(vp, argv, kw)

    w.shell.popen = popen
    # ---- squeue table
    for t in scenario["table"]:
        j = SlurmJob(t["id"])
        j.state = t["state"]
        j.name = "job_batch_1"
        j.foreign = not t["mine"]
        w.slurm.jobs[j.id] = j
        w.slurm.order.append(j)

    def caller(vp):
        for cid, c in enumerate(scenario["cmds"]):
            out = {} if c["use_output"] else None
            t0 = w.now
            kwargs = {}
            if c["error_strings"]:
                kwargs["error_strings"] = c["error_strings"]
            ret = run_command(f"simcmd {cid}", out, num_retries=c["num_retries"], retry_delay_s=c["retry_delay_s"], **kwargs)
            n = len(execs.get(cid, []))
            want = expected_executions(c)
            if n != want:
                bad("retry_count", "number of executions differs from min(retries+1, first success, first permanent error)",
                    f"cmd {cid}: executed {n} times, expected {want}; outcomes {[(o['rc'], o['err'][:20]) for o in c['outcomes']]} "
                    f"num_retries={c['num_retries']} error_strings={c['error_strings']}")
                continue
            if n > c["num_retries"] + 1:
                bad("retry_bound", "command executed more often than the configured retries allow", f"cmd {cid}: {n}")
            last = c["outcomes"][n - 1]
            if ret != last["rc"]:
                bad("retry_return", "return code is not the one of the last execution", f"cmd {cid}: {ret} vs {last['rc']}")
            if out is not None and (out.get("stdout") != last["out"] or out.get("stderr") != last["err"]):
                bad("retry_output", "captured output is not the one of the last execution", f"cmd {cid}: {out}")
            ts = execs[cid]
            for a, b, o in zip(ts, ts[1:], c["outcomes"][1:]):
                gap = b - a
                want_gap = c["retry_delay_s"] + o.get("dur", 0.0)
                if abs(gap - want_gap) > 1e-6:
                    bad("retry_delay", "delay between attempts differs from retry_delay_s", f"cmd {cid}: {gap} vs {want_gap}")
            if n > 1:
                w.probe("retried")
            if n < c["num_retries"] + 1 and last["rc"] != 0:
                w.probe("stopped_at_permanent_error")
            if n == c["num_retries"] + 1 and last["rc"] != 0:
                w.probe("retry_exhausted")
        # ---- status queries
        group = SubmissionGroup(name="default", submitter_params=SubmitterParams(
            hpc_config={"hpc_type": "slurm", "hpc": {"account": "a"}}))
        mgr = HpcManager({"default": group}, w.output)
        table = {t["id"]: t for t in scenario["table"]}
        ids = [t["id"] for t in scenario["table"]]
        for q in scenario["queries"]:
            if q["kind"] == "all":
                st = mgr.check_statuses()
                for jid, s in st.items():
                    t = table.get(jid)
                    if t is None:
                        bad("status_invented", "status reported for a job the scheduler does not list", f"{jid}")
                        continue
                    _check_status(bad, jid, t["state"], s, HpcJobStatus)
                for t in scenario["table"]:
                    listed = t["state"] not in ("COMPLETED", "CANCELLED", "FAILED", "TIMEOUT", "NODE_FAIL", "PREEMPTED",
                                                "OUT_OF_MEMORY", "BOOT_FAIL", "DEADLINE")
                    if listed and t["id"] not in st:
                        bad("status_dropped", "a job the scheduler lists is missing from the parsed statuses", f"{t}")
                w.probe("squeue_unknown_state_seen", sum(1 for s in st.values() if s == HpcJobStatus.UNKNOWN))
            else:
                if q["kind"] == "one" and ids:
                    jid = ids[q["i"] % len(ids)]
                else:
                    jid = "4242424"
                try:
                    s = mgr.check_status(job_id=jid)
                except Exception as e:  # noqa: BLE001
                    bad("status_query_raised", "status query of one job raised", f"{jid}: {type(e).__name__}: {e}")
                    continue
                if jid in table:
                    _check_status(bad, jid, table[jid]["state"], s, HpcJobStatus)
                elif s != HpcJobStatus.NONE:
                    bad("absent_not_none", "an absent job id is not reported as absent", f"{jid}: {s}")
        # ---- submit responses
        sm = SlurmManager(group.submitter_params.hpc_config)
        import re

        for r in scenario["sbatch"]:
            vp.tags["sb_script"] = r
            result, job_id, err = sm.submit(os.path.join(w.output, "x.sh"))
            m = re.search(r"Submitted batch job (\d+)", r["out"])
            good = r["rc"] == 0 and m is not None
            if good:
                if result != Status.GOOD or job_id != m.group(1):
                    bad("submit_parse", "a well-formed submit response was not accepted with its job id", f"{r}: {result} {job_id}")
            else:
                w.probe("unparsable_submit_response")
                if result == Status.GOOD:
                    bad("submit_garbage_accepted", "an unparsable or failed submit response was treated as a submission",
                        f"{r}: {result} {job_id}")
            vp.tags.pop("sb_script", None)
        return 0

    try:
        kernel.W = w
        w.spawn("caller", caller, "login1", w.base_env("login1"))
        try:
            w.run()
        finally:
            kernel.W = None
    finally:
        shutil.rmtree(root, ignore_errors=True)
    return w


def _check_status(bad, jid, state, s, HpcJobStatus):
    if s == HpcJobStatus.COMPLETE and state not in ("COMPLETED", "COMPLETING"):
        bad("unfinished_reported_complete", "a batch in a state other than finished is reported complete", f"{jid}: {state} -> {s}")
    if s == HpcJobStatus.NONE:
        bad("listed_reported_absent", "a batch the scheduler lists is reported absent", f"{jid}: {state} -> {s}")
    if state in ("COMPLETED", "COMPLETING") and s != HpcJobStatus.COMPLETE:
        bad("finished_not_complete", "a finished batch is not reported complete", f"{jid}: {state} -> {s}")


def candidates(sc):
    out = []
    for key in ("cmds", "table", "queries", "sbatch"):
        for i in range(len(sc[key]) - 1, -1, -1):
            if len(sc[key]) > (1 if key in ("cmds", "queries", "sbatch") else 0):
                c = copy.deepcopy(sc)
                del c[key][i]
                out.append((f"drop {key}[{i}]", c))
    for i, cm in enumerate(sc["cmds"]):
        for k in range(len(cm["outcomes"]) - 1, 0, -1):
            c = copy.deepcopy(sc)
            del c["cmds"][i]["outcomes"][k]
            out.append((f"drop outcome {i}.{k}", c))
    return out


profiles.profile("comp_runcmd", kind="component", gen=gen, runner=runner, shrink_candidates=candidates, fault_free=True)
profiles.PROFILE_PROPS["comp_runcmd"] = ["C18"]


# ---- world profile: flaky SLURM boundary ----------------------------------------------------
def gen_flaky(ch, prof):
    sc = gen_scenario(ch, prof)
    g = Gen(ch)
    sc["env"]["terminal_listed_s"] = g.pick([0.0, 30.0, 400.0, 400.0])
    sc["env"]["p_suspend"] = g.pick([0.0, 0.2, 0.5])
    sc["env"]["p_stall"] = 0.0
    p = {}
    if g.flip(0.6):
        p["squeue_fail"] = g.pick([0.05, 0.2])
    if g.flip(0.6):
        p["sbatch_fail"] = g.pick([0.1, 0.3])
    if g.flip(0.5):
        p["kill_node"] = g.pick([0.003, 0.01])
    sc["faults"] = {"p": p, "budget": g.rint(1, 4), "modes_sbatch_fail": ["k", "garbage", "k", "all"],
                    "modes_squeue_fail": ["k", "k", "all"]}
    return sc


profiles.profile("flaky_slurm", mode="hpc", fault_free=False, kind="world", gen=gen_flaky, full_slurm=True, max_jobs=8)
profiles.PROFILE_PROPS["flaky_slurm"] = ["C18"]
profiles.CHECKS["C18"] = {"profiles": [("clean_hpc_slurm", 0.3), ("flaky_slurm", 0.35), ("comp_runcmd", 0.35)],
                          "quick": {"runs": 4000}, "thorough": {"runs": 300000}}
profiles.RULES["C18"] = ("(a) world runs with every optional SlurmConfig field set with p=0.5: script options compared with the "
                         "configuration at every sbatch; (b) world runs with abnormal batch endings listed by squeue for a retention "
                         "period, SUSPENDED batches, transient / total squeue and sbatch failures and unparsable sbatch responses: "
                         "conservative status, bounded attempts; (c) component simulation of run_command (drawn per-attempt outcomes, "
                         "retries, permanent error strings), HpcManager status queries over the full state vocabulary and padding, "
                         "and SlurmManager.submit on drawn responses; non-trivial = at least one sbatch (world) or one retried / "
                         "early-stopped command (component)")
_old = profiles.nontrivial


def _nontrivial(prop, w):
    if prop == "C18" and w.scenario.get("kind") == "comp_runcmd":
        return w.probes.get("retried", 0) + w.probes.get("stopped_at_permanent_error", 0) >= 1
    return _old(prop, w)


profiles.nontrivial = _nontrivial
