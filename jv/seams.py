"""Monkeypatched seams.  Installed once per worker process; every patched function
passes through to the original unless the calling thread is the vproc that holds
the baton in the current World (and the world is not in observer mode)."""
import builtins
import errno
import io
import logging
import logging.config
import multiprocessing
import os
import pathlib
import shutil
import socket
import subprocess
import sys
import tempfile
import time
import uuid
import datetime as _datetime

from . import kernel
from .kernel import SimKilled

_installed = False
REAL = {}


def cur():
    """The vproc on whose behalf the calling code runs, or None (pass through)."""
    w = kernel.W
    if w is None or w.observer:
        return None
    return w.cur


# ------------------------------------------------------------------ time
def _time():
    w = kernel.W
    if w is None:
        return REAL["time.time"]()
    vp = w.cur
    if vp is not None:
        return w.now + w.host_skew.get(vp.host, 0.0)
    return w.now


def _sleep(seconds):
    vp = cur()
    if vp is None:
        w = kernel.W
        if w is not None:
            return  # observer / scheduler code never really sleeps
        return REAL["time.sleep"](seconds)
    kernel.W.sleep(vp, seconds)


class SimDateTime(_datetime.datetime):
    @classmethod
    def now(cls, tz=None):
        w = kernel.W
        if w is None:
            return _datetime.datetime.now(tz)
        return _datetime.datetime.fromtimestamp(_time(), tz)


class _DateTimeModuleShim:
    def __getattr__(self, name):
        if name == "datetime":
            return SimDateTime
        return getattr(_datetime, name)


# ------------------------------------------------------------------ files
def _shared(path):
    w = kernel.W
    try:
        p = os.fspath(path)
    except TypeError:
        return None
    if isinstance(p, bytes):
        return None
    if not p.startswith(w.shared_root):
        if p.startswith("/"):
            return None
        p = os.path.join(w.cwd_for(w.cur), p)
        if not p.startswith(w.shared_root):
            return None
    return p


class SimFile:
    """Write handle on a shared file: buffered like CPython's BufferedWriter, every flush
    is one yield point + one real write; a kill discards what was not flushed."""

    CHUNK = 8192

    def __init__(self, w, vp, path, mode, real, kwargs):
        self._w = w
        self._vp = vp
        self.name = path
        self.mode = mode
        self._real = real
        self._buf = []
        self._n = 0
        self._binary = "b" in mode
        self.closed = False

    def write(self, s):
        if self._vp.killed:
            raise SimKilled()
        if self.closed:
            raise ValueError("I/O operation on closed file.")
        self._buf.append(s)
        self._n += len(s)
        while self._n >= self.CHUNK:
            self._flush_some(self.CHUNK)
        return len(s)

    def writelines(self, lines):
        for x in lines:
            self.write(x)

    def _flush_some(self, limit=None):
        if not self._buf:
            return
        data = (b"" if self._binary else "").join(self._buf)
        if limit is not None and len(data) > limit:
            head, tail = data[:limit], data[limit:]
        else:
            head, tail = data, None
        self._buf = [tail] if tail else []
        self._n = len(tail) if tail else 0
        w = self._w
        w.fs_yield(self._vp, "write", self.name)
        fault = w.write_fault(self._vp, self.name, len(head))
        if fault is not None:
            keep, err = fault
            if keep:
                self._real.write(head[:keep])
                self._real.flush()
            w.emit("fs", self._vp, op="write_fail", path=w.rel(self.name), kept=keep, of=len(head))
            self._buf = []
            self._n = 0
            raise OSError(err, os.strerror(err), self.name)
        self._real.write(head)
        self._real.flush()
        w.emit("fs", self._vp, op="write", path=w.rel(self.name), n=len(head))

    def flush(self):
        if self._vp.killed:
            raise SimKilled()
        while self._buf:
            self._flush_some(self.CHUNK)

    def tell(self):
        pos = self._real.tell()
        if self._binary:
            return pos + self._n
        return pos + sum(len(x.encode("utf-8")) for x in self._buf)

    def fileno(self):
        return self._real.fileno()

    def close(self):
        if self.closed:
            return
        try:
            if not self._vp.killed:
                self.flush()
        finally:
            self.closed = True
            self._real.close()

    def __enter__(self):
        return self

    def __exit__(self, et, ev, tb):
        if et is not None and issubclass(et, SimKilled):
            self.closed = True
            self._real.close()
            return False
        self.close()
        return False

    def writable(self):
        return True

    def readable(self):
        return False

    def isatty(self):
        return False


def _open(file, mode="r", *args, **kwargs):
    vp = cur()
    if vp is None or not isinstance(mode, str) or not any(c in mode for c in "wax+"):
        return REAL["open"](file, mode, *args, **kwargs)
    p = _shared(file)
    if p is None:
        return REAL["open"](file, mode, *args, **kwargs)
    if vp.killed:
        raise SimKilled()
    w = kernel.W
    exists = os.path.exists(p)
    if "w" in mode or "x" in mode or not exists:
        w.fs_yield(vp, "open_" + mode.replace("b", "").replace("t", ""), p)
        err = w.op_fault(vp, "open", p)
        if err is not None:
            raise OSError(err, os.strerror(err), p)
        real = REAL["open"](p, mode, *args, **kwargs)
        w.emit("fs", vp, op="create" if not exists else "truncate", path=w.rel(p))
    else:
        real = REAL["open"](p, mode, *args, **kwargs)
    w.note_mtime(p)
    return SimFile(w, vp, p, mode, real, kwargs)


def _mutator(name, real, effect_check=None, two_paths=False):
    def wrapper(path, *args, **kwargs):
        vp = cur()
        if vp is None or kwargs.get("dir_fd") is not None:
            return real(path, *args, **kwargs)
        p = _shared(path)
        if p is None:
            return real(path, *args, **kwargs)
        if vp.killed:
            raise SimKilled()
        w = kernel.W
        if effect_check is not None and not effect_check(p, args, kwargs):
            return real(path, *args, **kwargs)
        w.fs_yield(vp, name, p)
        err = w.op_fault(vp, name, p)
        if err is not None:
            raise OSError(err, os.strerror(err), p)
        w.observer += 1
        try:
            r = real(path, *args, **kwargs)
        finally:
            w.observer -= 1
        if two_paths and args:
            w.emit("fs", vp, op=name, path=w.rel(p), to=w.rel(os.fspath(args[0])))
            w.note_mtime(os.fspath(args[0]))
        else:
            w.emit("fs", vp, op=name, path=w.rel(p))
        w.on_fs_change(p, name)
        return r

    wrapper.__name__ = name
    return wrapper


def _makedirs_effect(p, args, kwargs):
    return not os.path.isdir(p)


def _os_open(path, flags, mode=0o777, *args, **kwargs):
    vp = cur()
    if vp is None or not (flags & (os.O_CREAT | os.O_TRUNC | os.O_WRONLY | os.O_RDWR)):
        return REAL["os.open"](path, flags, mode, *args, **kwargs)
    p = _shared(path)
    if p is None:
        return REAL["os.open"](path, flags, mode, *args, **kwargs)
    if vp.killed:
        raise SimKilled()
    w = kernel.W
    w.fs_yield(vp, "os_open", p)
    existed = os.path.exists(p)
    fd = REAL["os.open"](p, flags, mode, *args, **kwargs)
    if not existed:
        w.note_mtime(p)
        w.emit("fs", vp, op="create", path=w.rel(p), excl=bool(flags & os.O_EXCL))
        w.on_fs_change(p, "create")
    return fd


def _listdir(path="."):
    r = REAL["os.listdir"](path)
    vp = cur()
    if vp is None:
        return r
    p = _shared(path)
    if p is None:
        return r
    return kernel.W.order_listing(r)


def _glob(self, pattern, **kw):
    r = REAL["Path.glob"](self, pattern, **kw)
    vp = cur()
    if vp is None or _shared(self) is None:
        return r
    return iter(kernel.W.order_listing(list(r)))


def _iterdir(self):
    r = REAL["Path.iterdir"](self)
    vp = cur()
    if vp is None or _shared(self) is None:
        return r
    return iter(kernel.W.order_listing(list(r)))


def _chdir(path):
    vp = cur()
    if vp is None:
        return REAL["os.chdir"](path)
    vp.cwd = os.fspath(path)


def _getcwd():
    vp = cur()
    if vp is None:
        return REAL["os.getcwd"]()
    return kernel.W.cwd_for(vp)


def _getpid():
    w = kernel.W
    if w is None or w.cur is None:
        return REAL["os.getpid"]()
    return w.cur.pid


def _gethostname():
    w = kernel.W
    if w is None or w.cur is None:
        return REAL["socket.gethostname"]()
    return w.cur.host


def _uuid4():
    w = kernel.W
    if w is None or w.cur is None:
        return REAL["uuid.uuid4"]()
    w.uuid_counter += 1
    return uuid.UUID(int=(0x4A44 << 112) | (w.cur.id << 64) | w.uuid_counter)


def _cpu_count():
    w = kernel.W
    if w is None or w.cur is None:
        return REAL["multiprocessing.cpu_count"]()
    return w.cpu_count_for(w.cur)


def _gettempdir():
    w = kernel.W
    if w is None or w.cur is None:
        return REAL["tempfile.gettempdir"]()
    return w.local_dir_for(w.cur)


# ------------------------------------------------------------------ environment
class EnvProxy:
    """os.environ replacement: the current vproc's environment, else the real one."""

    def __init__(self, real):
        self._real = real

    def _d(self):
        w = kernel.W
        if w is None or w.cur is None:
            return self._real
        return w.cur.env

    def __getitem__(self, k):
        return self._d()[k]

    def __setitem__(self, k, v):
        self._d()[k] = v

    def __delitem__(self, k):
        del self._d()[k]

    def __contains__(self, k):
        return k in self._d()

    def __iter__(self):
        return iter(self._d())

    def __len__(self):
        return len(self._d())

    def get(self, k, default=None):
        return self._d().get(k, default)

    def pop(self, k, *a):
        return self._d().pop(k, *a)

    def setdefault(self, k, v=None):
        return self._d().setdefault(k, v)

    def update(self, *a, **kw):
        return self._d().update(*a, **kw)

    def items(self):
        return self._d().items()

    def keys(self):
        return self._d().keys()

    def values(self):
        return self._d().values()

    def copy(self):
        return dict(self._d())

    def __repr__(self):
        return f"EnvProxy({self._d()!r})"


# ------------------------------------------------------------------ stdio
class StdRouter:
    def __init__(self, real, which):
        self._real = real
        self._which = which

    def write(self, s):
        w = kernel.W
        if w is not None and w.cur is not None:
            (w.cur.out if self._which == "out" else w.cur.err).append(s)
            return len(s)
        return self._real.write(s)

    def flush(self):
        w = kernel.W
        if w is not None and w.cur is not None:
            return None
        return self._real.flush()

    def isatty(self):
        return False

    def fileno(self):
        return self._real.fileno()

    @property
    def encoding(self):
        return getattr(self._real, "encoding", "utf-8")

    @property
    def errors(self):
        return getattr(self._real, "errors", "strict")

    def __getattr__(self, name):
        return getattr(self._real, name)


# ------------------------------------------------------------------ logging
class EventRouter(logging.Handler):
    """Single handler on the `_jade_event` logger: appends each formatted event to the
    current vproc's event file through the file seam (one flush per event, like
    logging.FileHandler)."""

    def emit(self, record):
        w = kernel.W
        if w is None or w.cur is None:
            return
        vp = w.cur
        if vp.event_log is None:
            return
        filename, _mode = vp.event_log
        line = record.getMessage()
        try:
            with open(filename, "a") as f:
                f.write(line + "\n")
        except OSError:
            # logging.Handler.handleError swallows I/O errors in real life as well
            w.emit("event_write_error", vp, path=w.rel(filename))
            return
        w.emit("event", vp, path=w.rel(filename), line=line)

    def close(self):
        pass

    def createLock(self):
        # A vproc may be parked inside emit(); a real lock held across a park would block
        # the other vproc threads outside the scheduler's control.
        self.lock = None


_event_router = EventRouter()


def _dictConfig(config):
    w = kernel.W
    if w is None or w.cur is None:
        return REAL["dictConfig"](config)
    loggers = config.get("loggers", {})
    if "_jade_event" in loggers:
        h = config["handlers"]["file"]
        vp = w.cur
        vp.event_log = (h["filename"], h.get("mode", "a"))
        if h.get("mode", "a") == "w":
            # FileHandler(mode="w") truncates at configuration time
            with open(h["filename"], "w"):
                pass
    # general logging configuration: dropped (log files are not observed)


def setup_logging_base():
    lg = logging.getLogger("_jade_event")
    lg.handlers[:] = [_event_router]
    lg.setLevel(logging.INFO)
    lg.propagate = False
    jl = logging.getLogger("jade")
    jl.handlers[:] = [logging.NullHandler()]
    jl.propagate = False
    jl.setLevel(logging.CRITICAL + 1)
    for name in ("show_results", "pipeline"):
        x = logging.getLogger(name)
        x.handlers[:] = [logging.NullHandler()]
        x.propagate = False


# ------------------------------------------------------------------ fileinput (process-global state in the stdlib)
def _fi_input(files=None, *a, **kw):
    import fileinput

    w = kernel.W
    if w is None or w.cur is None:
        return REAL["fileinput.input"](files, *a, **kw)
    fi = fileinput.FileInput(files, *a, **kw)
    w.cur.tags["fileinput"] = fi
    return fi


def _fi_attr(name):
    def f():
        w = kernel.W
        if w is None or w.cur is None or "fileinput" not in w.cur.tags:
            return REAL["fileinput." + name]()
        return getattr(w.cur.tags["fileinput"], name)()

    return f


# ------------------------------------------------------------------ install
def install():
    global _installed
    if _installed:
        return
    _installed = True
    from . import proc, simlock

    REAL.update({
        "time.time": time.time, "time.sleep": time.sleep, "open": builtins.open,
        "os.open": os.open, "os.listdir": os.listdir, "Path.glob": pathlib.Path.glob,
        "Path.iterdir": pathlib.Path.iterdir, "os.chdir": os.chdir, "os.getcwd": os.getcwd,
        "os.getpid": os.getpid, "socket.gethostname": socket.gethostname, "uuid.uuid4": uuid.uuid4,
        "multiprocessing.cpu_count": multiprocessing.cpu_count, "tempfile.gettempdir": tempfile.gettempdir,
        "dictConfig": logging.config.dictConfig, "Popen": subprocess.Popen, "call": subprocess.call,
        "environ": os.environ, "stdout": sys.stdout, "stderr": sys.stderr,
    })
    for name in ("rename", "replace", "remove", "unlink", "mkdir", "makedirs", "rmdir", "chmod", "utime"):
        REAL["os." + name] = getattr(os, name)
    REAL["shutil.rmtree"] = shutil.rmtree
    REAL["shutil.copyfile"] = shutil.copyfile

    time.time = _time
    time.sleep = _sleep
    builtins.open = _open
    io.open = _open
    os.open = _os_open
    os.listdir = _listdir
    pathlib.Path.glob = _glob
    pathlib.Path.iterdir = _iterdir
    os.chdir = _chdir
    os.getcwd = _getcwd
    os.getpid = _getpid
    socket.gethostname = _gethostname
    uuid.uuid4 = _uuid4
    multiprocessing.cpu_count = _cpu_count
    tempfile.gettempdir = _gettempdir
    logging.config.dictConfig = _dictConfig

    os.rename = _mutator("rename", REAL["os.rename"], two_paths=True)
    os.replace = _mutator("replace", REAL["os.replace"], two_paths=True)
    os.remove = _mutator("remove", REAL["os.remove"])
    os.unlink = _mutator("unlink", REAL["os.unlink"])
    os.mkdir = _mutator("mkdir", REAL["os.mkdir"])
    os.makedirs = _mutator("makedirs", REAL["os.makedirs"], effect_check=_makedirs_effect)
    os.rmdir = _mutator("rmdir", REAL["os.rmdir"])
    os.chmod = _mutator("chmod", REAL["os.chmod"], effect_check=lambda p, a, k: False)
    os.utime = _mutator("utime", REAL["os.utime"], effect_check=lambda p, a, k: False)
    shutil.rmtree = _mutator("rmtree", REAL["shutil.rmtree"], effect_check=lambda p, a, k: os.path.exists(p))

    def _copyfile(src, dst, **kw):
        vp = cur()
        if vp is None or _shared(dst) is None:
            return REAL["shutil.copyfile"](src, dst, **kw)
        w = kernel.W
        p = _shared(dst)
        w.fs_yield(vp, "copyfile", p)
        w.observer += 1
        try:
            r = REAL["shutil.copyfile"](src, dst, **kw)
        finally:
            w.observer -= 1
        w.emit("fs", vp, op="copyfile", path=w.rel(p))
        return r

    shutil.copyfile = _copyfile

    import fileinput

    for name in ("input", "filename", "lineno", "filelineno", "close"):
        REAL["fileinput." + name] = getattr(fileinput, name)
    fileinput.input = _fi_input
    for name in ("filename", "lineno", "filelineno"):
        setattr(fileinput, name, _fi_attr(name))

    os.environ = EnvProxy(REAL["environ"])
    sys.stdout = StdRouter(REAL["stdout"], "out")
    sys.stderr = StdRouter(REAL["stderr"], "err")

    subprocess.Popen = proc.SimPopen
    subprocess.call = proc.sim_call

    # jade-specific names bound at import time
    import jade.events
    import jade.jobs.cluster
    import jade.jobs.job_submitter
    import jade.jobs.results_aggregator
    import jade.result
    import jade.resource_monitor

    jade.result.time = _time
    jade.events.datetime = SimDateTime
    jade.jobs.job_submitter.datetime = _DateTimeModuleShim()
    jade.jobs.cluster.SoftFileLock = simlock.SimSoftFileLock
    jade.jobs.results_aggregator.SoftFileLock = simlock.SimSoftFileLock
    jade.resource_monitor.psutil = proc.PsutilStub()
    setup_logging_base()

    # observation point (behaviour unchanged): the instant at which a one-shot event
    # consolidation reads the per-process event files
    _orig_consolidate = jade.events.EventsSummary._consolidate_events

    def _consolidate_events(self):
        w = kernel.W
        if w is not None and w.cur is not None and not w.observer:
            import glob

            pend = sorted(w.rel(x) for x in glob.glob(os.path.join(str(self._output_dir), "job-outputs", "*", "events.log")))
            w.emit("consolidate_begin", w.cur, out=w.rel(str(self._output_dir)), pending=pend)
        return _orig_consolidate(self)

    jade.events.EventsSummary._consolidate_events = _consolidate_events
