"""Differential self-test of the lock model (simlock.SimSoftFileLock, behaviour break_stale)
against the installed filelock.SoftFileLock.

    python -m jv.locktest [N]          N drawn step sequences + the fixed two-party cases

A seeded generator draws short sequences over one marker path and two lock objects:
hand-written markers (absent / empty / garbage / oversized / well-formed naming a dead or a live
pid on this or another host, with or without a start-token line), ageing, acquire with a short
timeout, release, foreign replacement of the marker.  Every sequence is executed twice:

  real - a fresh interpreter without any seam, real files on tmpfs, real time (ageing via os.utime);
  sim  - one vproc in a SimWorld, virtual time.

The observations (acquired / timeout, marker present, marker names the holder) must agree.
Two-party cases (hand-over while a contender waits, a holder killed by SIGKILL, same and other
host) are fixed scripts.  This is a self-test of the simulator, not a property check.
"""
import json
import os
import random
import shutil
import subprocess
import sys
import tempfile

TIMEOUT = 0.3
POLL = 0.02


def gen(seed):
    r = random.Random(f"locktest/{seed}")
    steps = []
    for _ in range(r.randint(2, 7)):
        k = r.choice(["marker", "marker", "age", "acquire", "acquire", "acquire", "release", "replace", "unlink"])
        if k == "marker" and r.random() < 0.5:
            # the interesting triple: a left-over marker, some age, a contender
            steps.append(["marker", r.choice(["empty", "garbage", "oversized", "one_line", "four_lines", "bad_pid", "zero_pid",
                                              "dead_same", "dead_same3", "live_same", "live_same3", "dead_other", "live_other"])])
            if r.random() < 0.7:
                steps.append(["age", r.choice([1.0, 3.0, 3.0])])
            steps.append(["acquire", r.choice(["A", "B"])])
        elif k == "marker":
            steps.append(["marker", r.choice(["empty", "garbage", "oversized", "one_line", "four_lines", "bad_pid", "zero_pid"]
                                             + ["dead_same", "dead_same3", "live_same", "live_same3", "dead_other", "live_other"])])
        elif k == "age":
            steps.append(["age", r.choice([1.0, 3.0, 3.0])])
        elif k in ("acquire", "release"):
            steps.append([k, r.choice(["A", "A", "B"])])
        else:
            steps.append([k])
    steps.append(["release", "A"])
    steps.append(["release", "B"])
    return steps


def marker_text(kind, dead_pid, live_pid, host):
    return {
        "empty": "",
        "garbage": "\x00\xff not a marker",
        "oversized": "x" * 3000,
        "one_line": f"{live_pid}\n",
        "four_lines": f"{live_pid}\n{host}\n1\n2\n",
        "bad_pid": f"abc\n{host}\n",
        "zero_pid": f"0\n{host}\n",
        "dead_same": f"{dead_pid}\n{host}\n",
        "dead_same3": f"{dead_pid}\n{host}\n12345\n",
        "live_same": f"{live_pid}\n{host}\n",
        "live_other": f"{live_pid}\nsome-other-host\n",
        "dead_other": f"{dead_pid}\nsome-other-host\n",
    }.get(kind)


# ------------------------------------------------------------------------------- real side
def _real_env():
    import filelock
    from filelock._identity import host_name, process_start_token

    p = subprocess.Popen([sys.executable, "-c", "pass"])
    p.wait()
    return filelock, host_name(), p.pid, process_start_token


def real_sequence(steps, d):
    filelock, host, dead, token_of = _real_env()
    path = os.path.join(d, "x.lock")
    locks = {"A": filelock.SoftFileLock(path, timeout=TIMEOUT), "B": filelock.SoftFileLock(path, timeout=TIMEOUT)}
    obs = []

    def write(text):
        with open(path, "wb") as f:
            f.write(text.encode("utf-8", "surrogateescape") if isinstance(text, str) else text)

    for st in steps:
        k = st[0]
        if k == "marker":
            if any(l.is_locked for l in locks.values()):
                obs.append("skip")
                continue
            kind = st[1]
            if kind == "live_same3":
                text = f"{os.getpid()}\n{host}\n{token_of(os.getpid())}\n"
            elif kind == "garbage":
                text = b"\x00\xff not a marker"
            else:
                text = marker_text(kind, dead, os.getpid(), host)
            write(text)
        elif k == "age":
            if os.path.lexists(path):
                stt = os.stat(path)
                os.utime(path, (stt.st_atime - st[1], stt.st_mtime - st[1]))
        elif k == "acquire":
            lk = locks[st[1]]
            was = lk.is_locked
            try:
                lk.acquire(timeout=TIMEOUT, poll_interval=POLL)
                good = False
                try:
                    lines = open(path).read().splitlines()
                    good = lines[0] == str(os.getpid()) and lines[1] == host
                except (OSError, IndexError):
                    pass
                obs.append(["ok", True if was else good])
            except filelock.Timeout:
                obs.append(["timeout"])
        elif k == "release":
            locks[st[1]].release()
            obs.append(["present", os.path.lexists(path)])
        elif k == "replace":
            # a foreign party breaks the marker and creates its own
            if os.path.lexists(path):
                os.unlink(path)
            write(f"{os.getpid()}\nsome-other-host\n")
        elif k == "unlink":
            if os.path.lexists(path):
                os.unlink(path)
    for lk in locks.values():
        lk.release(force=True)
    if os.path.lexists(path):
        os.unlink(path)
    return obs


HOLDER = r"""
import sys, time, filelock
lk = filelock.SoftFileLock(sys.argv[1], timeout=5)
lk.acquire()
print("held", flush=True)
time.sleep(float(sys.argv[2]))
lk.release()
"""


def real_two_party(case, d):
    filelock, host, dead, _ = _real_env()
    path = os.path.join(d, "y.lock")
    hold = {"handover": 0.15, "handover_timeout": 2.0, "killed_same": 30.0, "killed_other": 30.0}[case]
    p = subprocess.Popen([sys.executable, "-c", HOLDER, path, str(hold)], stdout=subprocess.PIPE, text=True)
    assert p.stdout.readline().strip() == "held"
    if case.startswith("killed"):
        p.kill()
        p.wait()
        if case == "killed_other":
            lines = open(path).read().splitlines()
            lines[1] = "some-other-host"
            with open(path, "w") as f:
                f.write("\n".join(lines) + "\n")
    lk = filelock.SoftFileLock(path, timeout=1.0)
    try:
        lk.acquire(timeout=1.0 if case != "handover_timeout" else TIMEOUT, poll_interval=POLL)
        res = ["ok"]
        lk.release()
    except filelock.Timeout:
        res = ["timeout"]
    p.kill()
    p.wait()
    res.append(os.path.lexists(path) if case in ("handover", "killed_same") else None)
    if os.path.lexists(path):
        os.unlink(path)
    return res


def real_main(n):
    d = tempfile.mkdtemp(prefix="jv-locktest-", dir="/dev/shm")
    try:
        out = {"seq": [real_sequence(gen(s), d) for s in range(n)],
               "two": {c: real_two_party(c, d) for c in TWO}}
    finally:
        shutil.rmtree(d, ignore_errors=True)
    print(json.dumps(out))


TWO = ["handover", "handover_timeout", "killed_same", "killed_other"]


# -------------------------------------------------------------------------------- sim side
def _world(tag):
    from . import run, kernel
    from .kernel import Chooser
    from .world import SimWorld

    run.prepare_process()
    run._RUN_N += 1
    root = os.path.join(run.scratch_base(), f"r{run._RUN_N % 1000000:06d}")
    shutil.rmtree(root, ignore_errors=True)
    os.makedirs(root)
    sc = {"kind": "locktest", "env": {"lock_behaviour": "break_stale", "p_stall": 0.0}, "jobs": [], "groups": []}
    w = SimWorld(sc, Chooser(f"locktest/{tag}"), root, props=(), max_steps=20000)
    return w, root, kernel


def sim_sequence(steps, tag):
    from .simlock import SimSoftFileLock
    from filelock import Timeout

    w, root, kernel = _world(tag)
    path = os.path.join(w.shared_root, "x.lock")
    obs = []

    def target(vp):
        locks = {"A": SimSoftFileLock(path, timeout=TIMEOUT), "B": SimSoftFileLock(path, timeout=TIMEOUT)}
        dead = 999999
        for st in steps:
            k = st[0]
            if k == "marker":
                if any(l.is_locked for l in locks.values()):
                    obs.append("skip")
                    continue
                kind = st[1]
                if kind == "live_same3":
                    text = f"{vp.pid}\n{vp.host}\n777\n"
                else:
                    text = marker_text(kind, dead, vp.pid, vp.host)
                with open(path, "wb") as f:
                    f.write(b"\x00\xff not a marker" if kind == "garbage" else text.encode())
            elif k == "age":
                w.sleep(vp, st[1])
            elif k == "acquire":
                lk = locks[st[1]]
                was = lk.is_locked
                try:
                    lk.acquire(timeout=TIMEOUT)
                    good = False
                    try:
                        with open(path) as f:
                            lines = f.read().splitlines()
                        good = lines[0] == str(vp.pid) and lines[1] == vp.host
                    except (OSError, IndexError):
                        pass
                    obs.append(["ok", True if was else good])
                except Timeout:
                    obs.append(["timeout"])
            elif k == "release":
                locks[st[1]].release()
                obs.append(["present", os.path.lexists(path)])
            elif k == "replace":
                if os.path.lexists(path):
                    os.unlink(path)
                with open(path, "w") as f:
                    f.write(f"{vp.pid}\nsome-other-host\n")
            elif k == "unlink":
                if os.path.lexists(path):
                    os.unlink(path)
        return 0

    try:
        kernel.W = w
        w.spawn("locktest", target, "login1", w.base_env("login1"))
        try:
            w.run()
        finally:
            kernel.W = None
        for v in w.vprocs:
            if v.crash:
                obs.append(["crash", v.crash["type"], v.crash["msg"][:200]])
    finally:
        shutil.rmtree(root, ignore_errors=True)
    return obs


def sim_two_party(case):
    from .simlock import SimSoftFileLock
    from filelock import Timeout

    w, root, kernel = _world(case)
    path = os.path.join(w.shared_root, "y.lock")
    hold = {"handover": 0.15, "handover_timeout": 2.0, "killed_same": 30.0, "killed_other": 30.0}[case]
    res = []
    state = {}

    def holder(vp):
        lk = SimSoftFileLock(path, timeout=5)
        lk.acquire()
        state["held"] = True
        w.sleep(vp, hold)
        lk.release()
        return 0

    def contender(vp):
        while not state.get("held"):
            w.sleep(vp, 0.01)
        if case.startswith("killed"):
            w.request_kill(state["holder"], "test")
            w.sleep(vp, 0.01)
        lk = SimSoftFileLock(path, timeout=1.0)
        try:
            lk.acquire(timeout=1.0 if case != "handover_timeout" else TIMEOUT)
            res.append("ok")
            lk.release()
        except Timeout:
            res.append("timeout")
        res.append(os.path.lexists(path) if case in ("handover", "killed_same") else None)
        return 0

    try:
        kernel.W = w
        state["holder"] = w.spawn("holder", holder, "login1", w.base_env("login1"))
        chost = "login2" if case == "killed_other" else "login1"
        w.spawn("contender", contender, chost, w.base_env(chost))
        try:
            w.run()
        finally:
            kernel.W = None
        for v in w.vprocs:
            if v.crash:
                res.append(["crash", v.crash["type"], v.crash["msg"][:200]])
    finally:
        shutil.rmtree(root, ignore_errors=True)
    return res


def main(n):
    env = dict(os.environ, PYTHONDONTWRITEBYTECODE="1")
    p = subprocess.run([sys.executable, "-m", "jv.locktest", "--real", str(n)], capture_output=True, text=True,
                       cwd=os.path.dirname(os.path.dirname(os.path.abspath(__file__))), env=env, timeout=3000)
    if p.returncode:
        print(p.stdout[-2000:], p.stderr[-4000:])
        return 2
    real = json.loads(p.stdout.strip().splitlines()[-1])
    bad = 0
    cover = {}
    for s in range(n):
        steps = gen(s)
        sim = sim_sequence(steps, s)
        ctx, oi = "absent", 0
        for st in steps:
            if st[0] in ("marker", "replace", "unlink"):
                if st[0] == "marker" and oi < len(sim) and sim[oi] == "skip":
                    oi += 1
                    continue
                ctx = st[1] if st[0] == "marker" else st[0]
            elif st[0] == "age" and ctx not in ("absent", "unlink"):
                ctx = ctx.split("+")[0] + f"+{st[1]:g}s"
            elif st[0] in ("acquire", "release"):
                if oi < len(sim) and st[0] == "acquire":
                    cover[(ctx, sim[oi][0])] = cover.get((ctx, sim[oi][0]), 0) + 1
                    if sim[oi][0] == "ok":
                        ctx = "held"
                oi += 1
        if sim != real["seq"][s]:
            bad += 1
            print(f"MISMATCH seed {s}: steps={steps}\n   real={real['seq'][s]}\n   sim ={sim}")
    for c in TWO:
        sim = sim_two_party(c)
        if sim != real["two"][c]:
            bad += 1
            print(f"MISMATCH two-party {c}: real={real['two'][c]} sim={sim}")
    print("acquire outcomes by marker state: " + ", ".join(f"{k[0]}->{k[1]}:{v}" for k, v in sorted(cover.items())))
    print(f"locktest: {n} sequences + {len(TWO)} two-party cases, mismatches={bad}")
    return 1 if bad else 0


if __name__ == "__main__":
    if len(sys.argv) > 1 and sys.argv[1] == "--real":
        real_main(int(sys.argv[2]))
    else:
        sys.exit(main(int(sys.argv[1]) if len(sys.argv) > 1 else 200))
