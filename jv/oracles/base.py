"""Shared context for monitors: scenario info, reference DAG evaluation, and a tracker
that derives batches / launches / epochs / status observations from the history."""
import os
import shlex

from .. import state


class ScInfo:
    """Ground truth about one submission's configuration, taken from the scenario as
    generated (never from JADE's reloaded configuration)."""

    def __init__(self, jobs, groups, hooks=None, mode="hpc"):
        self.mode = mode
        self.jobs = jobs
        self.names = [j["name"] for j in jobs]
        self.spec = {j["name"]: j for j in jobs}
        self.blockers = {j["name"]: list(j.get("blocked_by", [])) for j in jobs}
        self.dependents = {n: [] for n in self.names}
        for n, bs in self.blockers.items():
            for b in bs:
                if b in self.dependents:
                    self.dependents[b].append(n)
        self.groups = {g["name"]: g for g in groups}
        self.group_list = groups
        self.hooks = hooks or {}
        first = groups[0]["params"] if groups else {}
        self.max_nodes = first.get("max_nodes")
        self.default_group = self.spec[self.names[0]]["group"] if self.names else None

    def topo(self):
        """(order, stuck): jobs in a topological order; `stuck` = jobs on or behind a cycle."""
        indeg = {n: len(set(self.blockers[n])) for n in self.names}
        ready = [n for n in self.names if indeg[n] == 0]
        order = []
        while ready:
            n = ready.pop(0)
            order.append(n)
            for d in self.dependents[n]:
                if d in indeg:
                    # a dependent may list the same blocker once only (sets)
                    indeg[d] -= 1
                    if indeg[d] == 0:
                        ready.append(d)
        stuck = [n for n in self.names if n not in set(order)]
        return order, stuck

    def refdag(self, missing=(), fixed=None, only=None):
        """Reference evaluation of the dependency graph: least fixpoint of
          - a flagged job with a failed or canceled blocker is canceled (never runs);
          - otherwise a job runs once all its blockers have outcomes, and is successful or
            failed by its exit code;
          - everything else (on or behind a dependency cycle, or waiting for a missing job)
            never gets an outcome: missing.
        For an acyclic graph this is the evaluation in topological order.  A cancellation can
        resolve a cycle (the canceled job is an outcome for its dependents).
        missing: jobs that never produce an outcome (lost batches).
        fixed:   {name: class} outcomes taken as given.
        only:    restrict blockers to this set (resubmission epochs).
        Returns {name: successful|failed|canceled|missing}."""
        out = dict(fixed or {})
        miss = set(missing)
        todo = [n for n in self.names if n not in out and n not in miss]
        changed = True
        while changed:
            changed = False
            for n in list(todo):
                bs = [b for b in self.blockers[n] if only is None or b in only]
                if self.spec[n].get("cancel") and any(out.get(b) in ("failed", "canceled") for b in bs):
                    out[n] = "canceled"
                elif all(out.get(b) in ("successful", "failed", "canceled") for b in bs):
                    out[n] = "successful" if int(self.spec[n].get("rc", 0)) == 0 else "failed"
                else:
                    continue
                todo.remove(n)
                changed = True
        for n in self.names:
            out.setdefault(n, "missing")
        return out

    def closure(self, selected):
        """selected plus every transitive dependent."""
        out = set(selected)
        work = list(selected)
        while work:
            n = work.pop()
            for d in self.dependents.get(n, []):
                if d not in out:
                    out.add(d)
                    work.append(d)
        return out

    def expected_argv(self, name, output_dir):
        j = self.spec[name]
        argv = shlex.split(j["command"])
        if j.get("append_job_name"):
            argv.append(f"--jade-job-name={name}")
        if j.get("append_output_dir"):
            argv.append(f"--jade-runtime-output={output_dir}")
        return argv

    def procs_limit(self, group_name, envk, mode):
        p = self.groups[group_name]["params"].get("num_parallel_processes_per_node")
        if p is not None:
            return int(p)
        return int(envk["cpus_on_node"] if mode == "hpc" else envk["cpu_count"])


class Sub:
    """Tracked state of one submission directory."""

    def __init__(self, w, outrel, sc):
        self.w = w
        self.outrel = outrel
        self.out = os.path.join(w.shared_root, outrel)
        self.sc = sc
        self.epoch = 0
        self.epoch_start_seq = 0
        self.batches = []          # dicts: n, jobs, ok, id, seq, epoch, vp, rec
        self.batch_ids_seen = {}   # batch n -> first seq (at sbatch)
        self.batch_files = {}      # batch n -> count of (re)writes of config_batch_n.json
        self.placed = {}           # (epoch, job) -> batch n
        self.launches = {}         # job -> list of launch records (dict with epoch)
        self.exits = {}            # job -> list of exit records
        self.obs = []              # status observations (dict)
        self.last_obs = None
        self.complete_seq = {}     # epoch -> seq at which is_complete became true
        self.cancel_seq = None
        self.monitoring = False
        self.results_json_seq = {}  # epoch -> last seq of results.json write
        self.resubmits = []
        self.rerun_names = set()   # jobs reset to not_submitted by the resubmission that opened this epoch

    def launches_in_epoch(self, name, epoch=None):
        e = self.epoch if epoch is None else epoch
        return [x for x in self.launches.get(name, []) if x["epoch"] == e]


class Ctx:
    def __init__(self, w, prof):
        self.w = w
        self.prof = prof
        sc = w.scenario
        self.subs = {}
        if sc.get("pipeline"):
            for i, st in enumerate(sc["pipeline"]["stages"]):
                outrel = f"pipeline/output-stage{i + 1}"
                self.subs[outrel] = Sub(w, outrel, ScInfo(st["jobs"], st["groups"], st.get("hooks"),
                                                          st.get("mode", sc.get("mode", "hpc"))))
        else:
            self.subs["output"] = Sub(w, "output", ScInfo(sc["jobs"], sc["groups"], sc.get("hooks"),
                                                          sc.get("mode", "hpc")))
        self.fault_free = bool(prof.get("fault_free", True))

    def sub_for_path(self, rel):
        if rel is None:
            return None
        for outrel, s in self.subs.items():
            if rel == outrel or rel.startswith(outrel + "/"):
                return s
        return None

    def sub_for_abs(self, p):
        if not p:
            return None
        return self.sub_for_path(self.w.rel(p))

    def crashed(self):
        return [v for v in self.w.vprocs if v.crash]

    def clean_run(self):
        """Fault-free profile AND no process ran into the 300 s lock timeout.  A legal stall
        (slow Lustre, suspended node) that outlasts the timeout makes a waiter raise in the
        middle of a round; such a run is an error history (C11's subject), so the oracles that
        are stated for fault-free runs (completeness, liveness) do not apply to it.  Safety
        monitors still do."""
        if not self.fault_free:
            return False
        c = getattr(self, "_clean", None)
        if c is None or c[0] != len(self.w.history):
            c = (len(self.w.history), not any(r[2] == "lock_timeout" for r in self.w.history))
            self._clean = c
        return c[1]


class Monitor:
    prop = None

    def __init__(self, ctx):
        self.ctx = ctx
        self.w = ctx.w

    def on_record(self, rec):
        pass

    def finish(self):
        pass

    def bad(self, oracle, key, msg, prop=None):
        self.w.violation(prop or self.prop, oracle, key, msg)


class Tracker(Monitor):
    """Always attached first: keeps Sub state up to date for the other monitors."""

    STATUS_FILES = ("cluster_config.json", "job_status.json", "config_version.txt", "job_status_version.txt")

    def on_record(self, rec):
        seq, vt, kind, vpid, d = rec
        ctx = self.ctx
        if kind == "sbatch":
            sub = ctx.sub_for_path(d.get("output"))
            if sub is None:
                return
            if d.get("attempt", 1) == 1:
                b = {"n": d.get("batch"), "jobs": list(d.get("jobs", [])), "ok": bool(d.get("ok")),
                     "id": d.get("id"), "seq": seq, "epoch": sub.epoch, "vp": vpid, "rec": d, "ids": []}
                sub.batches.append(b)
            else:
                b = next((x for x in reversed(sub.batches) if x["n"] == d.get("batch") and x["vp"] == vpid), None)
                if b is None:
                    return
                if d.get("ok"):
                    b["ok"] = True
                    b["id"] = d.get("id")
            if d.get("ok"):
                b["ids"].append(d.get("id"))
        elif kind == "job_launch":
            sub = ctx.sub_for_abs((d.get("env") or {}).get("JADE_RUNTIME_OUTPUT"))
            if sub is None:
                return
            sub.launches.setdefault(d["name"], []).append(
                {"seq": seq, "epoch": sub.epoch, "host": d.get("host"), "slurm_id": d.get("slurm_id"), "rec": d,
                 "vp": vpid})
        elif kind == "fs":
            p = d.get("path", "")
            sub = ctx.sub_for_path(p)
            if sub is None:
                return
            base = p[len(sub.outrel) + 1:]
            if base == "results.json" and d.get("op") == "write":
                sub.results_json_seq[sub.epoch] = seq
            if base in self.STATUS_FILES or base.endswith(".bk"):
                self.observe(sub, seq, "fs")
            if base.startswith("config_batch_") and d.get("op") in ("create", "truncate"):
                try:
                    n = int(base[len("config_batch_"):-len(".json")])
                except ValueError:
                    return
                sub.batch_files[n] = sub.batch_files.get(n, 0) + 1
        elif kind == "lock_release":
            p = d.get("path", "")
            if p.endswith("cluster_config.json.lock"):
                sub = ctx.sub_for_path(p)
                if sub is not None:
                    self.observe(sub, seq, "release")

    def observe(self, sub, seq, why):
        """Record a status observation if the cluster lock is free right now."""
        out = sub.out
        lock_free = not os.path.lexists(os.path.join(out, "cluster_config.json.lock"))
        if not lock_free:
            return  # not readable now; the release will be observed
        o = {"seq": seq, "why": why, "lock_free": lock_free, "cfg": None, "js": None, "err": None,
             "cv": None, "jv": None, "epoch": sub.epoch}
        try:
            cfg, js = state.read_status(out)
            o["cfg"], o["js"] = cfg, js
        except state.Unparsable as e:
            o["err"] = str(e)
        o["cv"] = state.read_version(os.path.join(out, "config_version.txt"))
        o["jv"] = state.read_version(os.path.join(out, "job_status_version.txt"))
        cfg = o["cfg"]
        prev = sub.last_obs
        if cfg is not None:
            if prev is not None and prev.get("cfg") is not None:
                was = prev["cfg"].get("is_complete")
                now = cfg.get("is_complete")
                if was and not now:
                    sub.epoch += 1
                    sub.epoch_start_seq = seq
                    o["epoch"] = sub.epoch
                    o["new_epoch"] = True
                    sub.rerun_names = {j["name"] for j in (o.get("js") or {}).get("jobs", [])
                                       if j.get("state") == "not_submitted"}
                if now and not was:
                    sub.complete_seq.setdefault(sub.epoch, seq)
                    o["completed_now"] = True
                if cfg.get("is_canceled") and not prev["cfg"].get("is_canceled"):
                    if sub.cancel_seq is None:
                        sub.cancel_seq = seq
                    o["canceled_now"] = True
            elif cfg.get("is_complete"):
                sub.complete_seq.setdefault(sub.epoch, seq)
            sub.last_obs = o
        if cfg is not None and o["js"] is not None:
            sub.monitoring = True
        sub.obs.append(o)
        for m in self.w.monitors:
            f = getattr(m, "on_status", None)
            if f is not None:
                f(sub, o)
