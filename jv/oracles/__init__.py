"""Online monitors and post-hoc oracles, one module per property family."""


def attach(w, prof, props):
    pass


def finish(w, prof, props):
    pass
