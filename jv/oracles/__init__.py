"""Online monitors and post-hoc oracles."""
from .base import Ctx, Tracker
from . import core


def attach(w, prof, props):
    props = set(props)
    ctx = Ctx(w, prof)
    w.octx = ctx
    mons = [Tracker(ctx)]
    if "C01" in props:
        mons.append(core.C01(ctx, "C01", file_level=ctx.fault_free))
    if "C02" in props:
        mons.append(core.C02(ctx))
    if props & {"C03", "C04"}:
        mons.append(core.C03C04(ctx, props & {"C03", "C04"}))
    if "C05" in props:
        mons.append(core.C05(ctx))
    if "C06" in props:
        mons.append(core.C06(ctx))
    if props & {"C07", "C18"}:
        mons.append(core.C07C18Script(ctx, props & {"C07", "C18"}))
    if "C08" in props and w.scenario.get("jobs"):
        mons.append(core.C08World(ctx))
    if "C09" in props:
        mons.append(core.C09(ctx))
    if "C10" in props and w.scenario.get("jobs"):
        mons.append(core.C10World(ctx))
    if "C16" in props:
        mons.append(core.C16(ctx))
    if "C18" in props:
        mons.append(core.C18World(ctx))
    if "C19" in props:
        mons.append(core.C19(ctx))
    if "C20" in props:
        mons.append(core.C20(ctx))
    extra = prof.get("extra_monitors")
    if extra:
        mons.extend(extra(ctx, props))
    w.monitors = mons


def finish(w, prof, props):
    w.observer += 1
    try:
        for m in w.monitors:
            m.finish()
    finally:
        w.observer -= 1
