"""Monitors for the properties decided on full-world runs:
C01 C02 C03 C04 C05 C06 C07 C09 C16 C18(script, retries, status) C19 C20(tallies, events)."""
import json
import os
import shlex

from .. import state
from ..simslurm import ACTIVE, FINISHED_OK
from .base import Monitor

OPTIONAL_SLURM = ("gres", "mem", "nodes", "ntasks", "ntasks_per_node", "partition", "qos", "tmp", "reservation")


def expected_sbatch_options(group, batch_n, out_abs):
    hc = group["params"]["hpc_config"]
    hpc = hc["hpc"]
    exp = {
        "account": str(hpc["account"]),
        "job-name": f"{hc.get('job_prefix', 'job')}_batch_{batch_n}",
        "time": str(hpc.get("walltime", "4:00:00")),
        "output": f"{out_abs}/job_output_%j.o",
        "error": f"{out_abs}/job_output_%j.e",
    }
    if hpc.get("nodes") is None and hpc.get("ntasks") is None and hpc.get("ntasks_per_node") is None:
        exp["nodes"] = "1"  # SlurmConfig's documented default
    for f in OPTIONAL_SLURM:
        if hpc.get(f) is not None:
            exp[f.replace("_", "-")] = str(hpc[f])
    return exp


def is_fault_free_complete(ctx, sub):
    lo = sub.last_obs
    return bool(lo and lo.get("cfg") and lo["cfg"].get("is_complete"))


# --------------------------------------------------------------------------- C01
class C01(Monitor):
    prop = "C01"

    def __init__(self, ctx, prop="C01", file_level=True):
        super().__init__(ctx)
        self.prop = prop
        self.file_level = file_level
        self.placed = {}
        self.batch_seen = {}
        self.file_seen = {}

    def on_record(self, rec):
        seq, vt, kind, vpid, d = rec
        if kind == "sbatch":
            sub = self.ctx.sub_for_path(d.get("output"))
            if sub is None or d.get("attempt", 1) != 1:
                return
            n = d.get("batch")
            key = (sub.outrel, n)
            if key in self.batch_seen:
                self.bad("batch_id_reused", "batch identifier handed to the HPC twice",
                         f"batch {n} of {sub.outrel} handed at seq {self.batch_seen[key]} and again at seq {seq}")
            else:
                self.batch_seen[key] = seq
            jobs = d.get("jobs", [])
            if len(set(jobs)) != len(jobs):
                self.bad("dup_in_batch", "job listed twice in one batch", f"batch {n}: {jobs}")
            for j in jobs:
                if j not in sub.sc.spec:
                    self.bad("unknown_job", "batch contains a job that is not configured", f"batch {n}: {j}")
                    continue
                k = (sub.outrel, sub.epoch, j)
                if k in self.placed and self.placed[k] != n:
                    self.bad("double_placement", "job placed in two batches",
                             f"job {j} in batch {self.placed[k]} and batch {n} (epoch {sub.epoch})")
                self.placed[k] = n
            if sub.epoch == 0 and self.prop == "C01" and jobs:
                # "either placed in exactly one batch or canceled without running": a job that already has
                # a canceled result on disk must not be handed to the HPC as well
                try:
                    canceled = {r["name"] for _, r in state.all_rows(sub.out, tolerate=True) if r["status"] == "canceled"}
                except OSError:
                    canceled = set()
                both = [j for j in jobs if j in canceled]
                if both:
                    self.bad("canceled_and_placed", "a job with a canceled result was also placed in a batch",
                             f"batch {n}: {both} (epoch 0, seq {seq})")
        elif kind == "job_launch":
            sub = self.ctx.sub_for_abs((d.get("env") or {}).get("JADE_RUNTIME_OUTPUT"))
            if sub is None:
                return
            ls = sub.launches_in_epoch(d["name"])
            if len(ls) > 1:
                self.bad("double_launch", "job command started twice",
                         f"job {d['name']} launched at seqs {[x['seq'] for x in ls]} (epoch {sub.epoch})")
        elif kind == "fs" and self.file_level:
            p = d.get("path", "")
            if "/config_batch_" in p and d.get("op") == "truncate":
                self.bad("batch_id_reused", "batch identifier handed to the HPC twice",
                         f"{p} overwritten at seq {seq}")

    def finish(self):
        ctx = self.ctx
        if not ctx.clean_run() or self.prop != "C01":
            return
        for sub in ctx.subs.values():
            if sub.epoch != 0 or not is_fault_free_complete(ctx, sub) or sub.sc.mode != "hpc":
                continue
            if ctx.w.scenario.get("dry_run") or sub.cancel_seq is not None:
                continue
            try:
                rows = state.read_rows(os.path.join(sub.out, "processed_results.csv")) or []
            except state.Unparsable:
                continue
            canceled = {r["name"] for r in rows if r["status"] == "canceled"}
            for n in sub.sc.names:
                nb = sum(1 for b in sub.batches if n in b["jobs"])
                nl = len(sub.launches.get(n, []))
                if nb == 1:
                    continue
                if nb == 0 and n in canceled and nl == 0:
                    continue
                self.bad("not_exactly_one_batch", "completed without faults but a job is in no batch and not canceled",
                         f"job {n}: batches={nb} launches={nl} canceled={n in canceled}")


# --------------------------------------------------------------------------- C02
class C02(Monitor):
    prop = "C02"

    def __init__(self, ctx, prop="C02"):
        super().__init__(ctx)
        self.prop = prop
        self.checked = 0

    def on_record(self, rec):
        seq, vt, kind, vpid, d = rec
        if kind != "job_launch":
            return
        sub = self.ctx.sub_for_abs((d.get("env") or {}).get("JADE_RUNTIME_OUTPUT"))
        if sub is None:
            return
        name = d["name"]
        bs = sub.sc.blockers.get(name)
        if sub.epoch > 0 and bs:
            # resubmission epoch: the outcomes of the jobs being rerun were erased and must be
            # recorded anew; blockers that are not rerun keep their old outcome (or, if they never
            # had one and were not selected, are deliberately not waited for: C13's subject)
            bs = [b for b in bs if b in sub.rerun_names]
        if not bs:
            return
        have = state.names_with_rows(sub.out, torn=any(f["kind"] == "write_fail" for f in self.w.faults.fired))
        self.checked += 1
        self.w.probe("launch_with_blockers")
        for b in bs:
            if b not in have:
                self.bad("start_before_blocker", "job started before a blocking job had a recorded outcome",
                         f"job {name} launched at seq {seq} on {d.get('host')} but blocker {b} has no result row on disk")


# --------------------------------------------------------------------------- C03 / C04
class C03C04(Monitor):
    prop = "C03"

    def __init__(self, ctx, props=("C03", "C04")):
        super().__init__(ctx)
        self.props = set(props)
        self._ref = {}

    def ref(self, sub):
        r = self._ref.get(sub.outrel)
        if r is None:
            r = self._ref[sub.outrel] = sub.sc.refdag()
        return r

    def on_record(self, rec):
        if "C04" not in self.props or not self.ctx.fault_free:
            return
        seq, vt, kind, vpid, d = rec
        if kind == "job_launch":
            sub = self.ctx.sub_for_abs((d.get("env") or {}).get("JADE_RUNTIME_OUTPUT"))
            if sub is None or sub.epoch != 0 or d["name"] not in sub.sc.spec:
                return
            if self.ref(sub).get(d["name"]) == "canceled":
                self.bad("canceled_but_ran", "canceled job's command was started",
                         f"{d['name']} launched at seq {seq} although a blocker failed or was canceled and it is flagged", "C04")

    def check_canceled_rows(self, sub):
        """Every canceled row on disk (complete or not): non-zero code, justified, never launched."""
        try:
            rows = [r for _, r in state.all_rows(sub.out)]
        except state.Unparsable:
            return
        ref = self.ref(sub)
        for r in rows:
            if r["status"] != "canceled" or r["name"] not in sub.sc.spec:
                continue
            n = r["name"]
            if r["return_code"] == 0:
                self.bad("canceled_rc_zero", "canceled result carries return code 0", f"{n}", "C04")
            if ref.get(n) != "canceled":
                self.bad("wrongly_canceled", "job canceled although reference says it runs", f"{n}: reference {ref.get(n)}", "C04")
            if sub.launches.get(n):
                self.bad("canceled_but_ran", "canceled job's command was started", f"{n}: {len(sub.launches[n])} launches", "C04")

    def finish(self):
        ctx = self.ctx
        if not ctx.clean_run():
            return
        for sub in ctx.subs.values():
            if sub.epoch != 0 or sub.cancel_seq is not None:
                continue
            if "C04" in self.props:
                self.check_canceled_rows(sub)
            if sub.sc.mode == "hpc":
                if not is_fault_free_complete(ctx, sub):
                    continue
            else:
                if not os.path.exists(os.path.join(sub.out, "results.json")):
                    continue
            self.check(sub)

    def check(self, sub):
        sc = sub.sc
        ref = sc.refdag()
        try:
            rows = state.read_rows(os.path.join(sub.out, "processed_results.csv"))
        except state.Unparsable as e:
            self.bad("results_unparsable", "consolidated results do not parse", str(e), "C03")
            return
        try:
            rj = state.read_json(os.path.join(sub.out, "results.json"))
        except state.Unparsable as e:
            self.bad("results_unparsable", "results.json does not parse", str(e), "C03")
            return
        if rows is None or rj is None:
            self.bad("results_absent", "completed submission without results files", sub.outrel, "C03")
            return
        self.w.probe("completed_checked")
        for label, entries in (("processed_results.csv", rows), ("results.json", rj.get("results", []))):
            by = {}
            for r in entries:
                by.setdefault(r["name"], []).append(r)
            if "C03" in self.props:
                for n, lst in by.items():
                    if n not in sc.spec:
                        self.bad("unknown_result", "result for a job that is not configured", f"{label}: {n}", "C03")
                    elif len(lst) != 1:
                        self.bad("duplicate_result", "more than one result entry for a job",
                                 f"{label}: {n} x{len(lst)}", "C03")
                for n in sc.names:
                    if ref[n] in ("missing", "canceled_or_missing"):
                        # on or behind a dependency cycle: blocks forever, must end up missing (C12)
                        if n in by and state.classify(by[n][0]) != "canceled":
                            self.bad("result_for_stuck_job", "a job behind a dependency cycle has a finished result",
                                     f"{label}: {n}", "C03")
                        continue
                    if n not in by:
                        self.bad("missing_result", "completed without faults but a job has no result entry",
                                 f"{label}: {n} (reference says {ref[n]})", "C03")
            for n in sc.names:
                if "C04" in self.props and label == "processed_results.csv" and ref[n] == "canceled" and n not in by:
                    self.bad("not_canceled", "flagged job with failed/canceled blocker was not canceled",
                             f"{n}: no result at all after completion ({len(sub.launches.get(n, []))} launches)", "C04")
                if n not in by or ref[n] in ("missing", "canceled_or_missing"):
                    continue
                r = by[n][0]
                got = state.classify(r)
                want = ref[n]
                launches = len(sub.launches.get(n, []))
                if "C03" in self.props and got != want:
                    self.bad("wrong_classification", "job classification differs from reference DAG evaluation",
                             f"{label}: {n} is {got}, reference {want}", "C03")
                if "C03" in self.props and got in ("successful", "failed") and r["return_code"] != int(sc.spec[n]["rc"]):
                    self.bad("wrong_return_code", "recorded return code differs from the job's exit code",
                             f"{label}: {n} rc={r['return_code']} real={sc.spec[n]['rc']}", "C03")
                if "C04" in self.props and label == "processed_results.csv":
                    if want == "canceled":
                        if got != "canceled" or r["return_code"] == 0:
                            self.bad("not_canceled", "flagged job with failed/canceled blocker was not canceled",
                                     f"{n}: {got} rc={r['return_code']}", "C04")
                        if launches:
                            self.bad("canceled_but_ran", "canceled job's command was started",
                                     f"{n}: {launches} launches", "C04")
                    else:
                        if got == "canceled":
                            self.bad("wrongly_canceled", "job canceled although reference says it runs",
                                     f"{n}: reference {want}", "C04")
                        elif launches != 1:
                            self.bad("not_run_once", "job that must run was not started exactly once",
                                     f"{n}: {launches} launches", "C04")
        stuck = sorted(n for n in sc.names if ref[n] in ("missing", "canceled_or_missing"))
        if "C03" in self.props and sorted(rj.get("missing_jobs", [])) != sorted(
                n for n in stuck if n not in {r["name"] for r in rj.get("results", [])}):
            self.bad("missing_jobs_nonempty", "completed without faults but missing_jobs is not empty",
                     f"{rj.get('missing_jobs')}", "C03")


# --------------------------------------------------------------------------- C05
class C05(Monitor):
    prop = "C05"

    def __init__(self, ctx):
        super().__init__(ctx)
        self.sbatch_ok_by_root = {}
        self.rounds = {}  # vp id -> {"touched": bool, "removed": bool}

    def _root(self, vpid):
        vp = self.w.vprocs[vpid]
        while vp.parent is not None and vp.parent.role != "node":
            vp = vp.parent
        return vp

    def on_record(self, rec):
        seq, vt, kind, vpid, d = rec
        if kind == "sbatch":
            sub = self.ctx.sub_for_path(d.get("output"))
            if sub is None:
                return
            if d.get("ok"):
                r = self._root(vpid)
                self.sbatch_ok_by_root[r.id] = self.sbatch_ok_by_root.get(r.id, 0) + 1
            if sub.epoch in sub.complete_seq and d.get("attempt", 1) == 1:
                self.bad("sbatch_after_complete", "batch submitted after the submission completed",
                         f"batch {d.get('batch')} at seq {seq}, complete since seq {sub.complete_seq[sub.epoch]}")
        elif kind == "fs":
            p = d.get("path", "")
            if p.endswith("/results.json") and d.get("op") in ("write", "truncate", "create"):
                sub = self.ctx.sub_for_path(p)
                if sub is not None and sub.epoch in sub.complete_seq:
                    vp = self.w.vprocs[vpid]
                    self.bad("completed_twice", "the completion steps ran again after the submission was complete",
                             f"{p} {d.get('op')} at seq {seq} by {vp.role} on {vp.host}; complete since seq "
                             f"{sub.complete_seq[sub.epoch]} (epoch {sub.epoch})")
            if p.endswith("/submitter.lock"):
                st = self.rounds.setdefault(vpid, {"touched": False, "removed": False})
                if d.get("op") == "create":
                    st["touched"] = True
                elif d.get("op") in ("remove", "unlink"):
                    st["removed"] = True
        elif kind == "exit":
            vp = self.w.vprocs[vpid]
            if vp.tags.get("user_cmd") == "recovery" and self.ctx.clean_run():
                self._check_recovery(vp, seq)
            if vp.tags.get("user_cmd") == "after_completion" and self.ctx.clean_run():
                if d.get("rc") != 0 or vp.crash:
                    self.bad("poke_after_completion_failed", "a command on a completed submission did not exit cleanly",
                             f"{' '.join(vp.argv[1:2])} rc={d.get('rc')} crash={vp.crash and (vp.crash['type'], vp.crash['where'])}")
            st = self.rounds.get(vpid)
            if st and st["touched"] and st["removed"] and d.get("rc") == 0 and self.ctx.clean_run():
                self._check_no_needless_wait(vp, seq)

    def _lock_timeouts(self):
        return any(r[2] == "lock_timeout" for r in self.w.history)

    def _check_recovery(self, vp, seq):
        if self._lock_timeouts():
            return  # a stall outlasted the 300 s lock timeout: legal, but not a progress obligation
        sub = self.ctx.sub_for_abs(self.w.output) or next(iter(self.ctx.subs.values()))
        for s in self.ctx.subs.values():
            if vp.argv and any(os.path.join(self.w.shared_root, s.outrel) == a for a in vp.argv):
                sub = s
        n_ok = self.sbatch_ok_by_root.get(vp.id, 0)
        lo = sub.last_obs
        complete = bool(lo and lo.get("cfg") and lo["cfg"].get("is_complete"))
        if n_ok == 0 and not complete:
            crash = [(v.role, v.crash["type"], v.crash["where"]) for v in self.w.vprocs
                     if v.crash and (v is vp or self._root(v.id) is vp)]
            self.bad("stuck_round", "recovery command neither submitted a batch nor completed the submission",
                     f"{' '.join(vp.argv[1:2])} rc={vp.exit_code} out={vp.stdout_text()[-120:]!r} crash={crash}")

    def _check_no_needless_wait(self, vp, seq):
        for sub in self.ctx.subs.values():
            if not any(a == sub.out for a in vp.argv) and not (vp.role == "submit-jobs" and sub.outrel == "output"):
                continue
            if sub.sc.mode != "hpc" or self.w.scenario.get("dry_run"):
                continue
            try:
                cfg, js = state.read_status(sub.out)
            except state.Unparsable:
                return
            if not cfg or not js or cfg.get("is_complete") or cfg.get("is_canceled"):
                return
            max_nodes = sub.sc.max_nodes
            active = len(js.get("hpc_job_ids", []))
            if max_nodes is not None and active >= max_nodes:
                return
            try:
                rows = state.read_rows(os.path.join(sub.out, "processed_results.csv")) or []
            except state.Unparsable:
                return
            have = {r["name"] for r in rows}
            for j in js.get("jobs", []):
                if j.get("state") != "not_submitted":
                    continue
                bs = sub.sc.blockers.get(j["name"], [])
                if sub.epoch > 0:
                    continue
                if all(b in have for b in bs):
                    self.bad("needless_wait", "round left a ready job unsubmitted below the max-nodes limit",
                             f"job {j['name']} (blockers {bs} all collected) not submitted by {vp.role} "
                             f"with {active} active ids, max_nodes={max_nodes}")
                    return

    def on_status(self, sub, o):
        if not o.get("completed_now"):
            return
        seq = o["seq"]
        ep = sub.epoch
        rseq = sub.results_json_seq.get(ep)
        if rseq is None or rseq > seq:
            self.bad("complete_before_summary", "completion flag set before the results summary was written",
                     f"is_complete at seq {seq}, results.json written at {rseq} (epoch {ep})")
            return
        if self.ctx.clean_run() and sub.cancel_seq is None:
            try:
                rj = state.read_json(os.path.join(sub.out, "results.json"))
            except state.Unparsable as e:
                self.bad("complete_bad_summary", "results summary unreadable at completion", str(e))
                return
            names = [r["name"] for r in (rj or {}).get("results", [])]
            if sorted(names) != sorted(sub.sc.names) and not self.w.scenario.get("has_cycle"):
                self.bad("complete_without_all_results", "completion flag set although not every job has a result",
                         f"results for {sorted(names)} of {sorted(sub.sc.names)}; missing_jobs={(rj or {}).get('missing_jobs')}")

    def finish(self):
        ctx = self.ctx
        if not ctx.fault_free or self.w.cut or self._lock_timeouts():
            return
        drv = self.w.driver
        for sub in ctx.subs.values():
            if sub.sc.mode != "hpc" or self.w.scenario.get("dry_run"):
                continue
            lo = sub.last_obs
            complete = bool(lo and lo.get("cfg") and lo["cfg"].get("is_complete"))
            n_rec = len(getattr(drv, "recoveries", []))
            bound = len(sub.sc.names) + 2
            if not complete and sub.monitoring and not ctx.prof.get("no_liveness"):
                self.bad("not_complete", "fault-free submission did not complete within the recovery bound",
                         f"{n_rec} recovery commands (bound {bound}); status={_brief(lo)}")
            elif n_rec > bound:
                self.bad("too_many_rounds", "more recovery commands than jobs were needed",
                         f"{n_rec} recovery commands for {len(sub.sc.names)} jobs")


def _brief(o):
    if not o or not o.get("cfg"):
        return None
    c = o["cfg"]
    js = o.get("js") or {}
    return {"submitted": c.get("submitted_jobs"), "completed": c.get("completed_jobs"), "num": c.get("num_jobs"),
            "submitter": c.get("submitter"), "ids": js.get("hpc_job_ids"),
            "states": {j["name"]: j["state"][:3] for j in js.get("jobs", [])}}


# --------------------------------------------------------------------------- C06
class C06(Monitor):
    prop = "C06"

    def on_record(self, rec):
        seq, vt, kind, vpid, d = rec
        w = self.w
        if kind == "sbatch" and d.get("ok"):
            sub = self.ctx.sub_for_path(d.get("output"))
            if sub is None:
                return
            mx = sub.sc.max_nodes
            act = [j for j in w.slurm.active_of(sub.out)]
            if len(act) >= (mx or 10**9):
                w.probe("max_nodes_reached")
            if mx is not None and len(act) > mx:
                self.bad("too_many_batches", "more batches queued or running than max-nodes",
                         f"{len(act)} active ({[(j.id, j.state) for j in act]}) > max_nodes={mx} after sbatch at seq {seq}")
        elif kind == "job_launch":
            sub = self.ctx.sub_for_abs((d.get("env") or {}).get("JADE_RUNTIME_OUTPUT"))
            if sub is None or d["name"] not in sub.sc.spec:
                return
            vp = w.vprocs[vpid]
            live = [j for j in w.shell.live_jobs.get(vp.id, []) if not j.done and not j.killed]
            grp = sub.sc.spec[d["name"]]["group"]
            if sub.sc.mode == "local":
                grp = sub.sc.default_group
            lim = sub.sc.procs_limit(grp, w.envk, sub.sc.mode)
            if len(live) >= lim:
                w.probe("node_full")
            if len(live) > lim:
                self.bad("too_many_processes", "more job processes running on a node than processes-per-node",
                         f"{len(live)} live on {vp.host} > limit {lim} (group {grp}) at seq {seq}")


# --------------------------------------------------------------------------- C07 (+ C18 script part)
class C07C18Script(Monitor):
    prop = "C07"

    def __init__(self, ctx, props=("C07", "C18")):
        super().__init__(ctx)
        self.props = set(props)
        self.cases = set()

    def on_record(self, rec):
        seq, vt, kind, vpid, d = rec
        if kind != "sbatch":
            return
        sub = self.ctx.sub_for_path(d.get("output"))
        if sub is None:
            return
        if "C18" in self.props and d.get("attempt", 1) > 7:
            self.bad("too_many_attempts", "external command executed more than the configured retries",
                     f"sbatch attempt {d.get('attempt')}", "C18")
        if d.get("attempt", 1) != 1:
            return
        sc = sub.sc
        jobs = d.get("jobs", [])
        n = d.get("batch")
        if "C07" in self.props:
            self._c07(sub, sc, d, jobs, n, seq)
        if "C18" in self.props:
            self._c18(sub, sc, d, jobs, n, seq)

    def _group_of_batch(self, sc, jobs):
        gs = {sc.spec[j]["group"] for j in jobs if j in sc.spec}
        return gs

    def _c07(self, sub, sc, d, jobs, n, seq):
        if not jobs:
            self.bad("empty_batch", "empty batch handed to the HPC", f"batch {n}")
            return
        gs = self._group_of_batch(sc, jobs)
        if len(gs) != 1:
            self.bad("mixed_groups", "batch holds jobs of several submission groups", f"batch {n}: {sorted(gs)}")
            return
        gname = next(iter(gs))
        grp = sc.groups[gname]
        p = grp["params"]
        self.cases.add((len(sc.names), gname, len(jobs)))
        if p.get("time_based_batching"):
            nproc = p.get("num_parallel_processes_per_node") or 1
            total = sum(int(sc.spec[j].get("est") or 0) for j in jobs)
            lim = grp["wall_min"] * nproc
            if total > lim:
                self.bad("time_limit", "estimated minutes of a batch exceed walltime x processes-per-node",
                         f"batch {n}: {total} min > {lim} ({jobs})")
        else:
            if len(jobs) > int(p["per_node_batch_size"]):
                self.bad("size_limit", "batch holds more jobs than per-node-batch-size",
                         f"batch {n}: {len(jobs)} > {p['per_node_batch_size']}")
        # group's HPC parameters and run options
        exp = expected_sbatch_options(grp, n, sub.out)
        got = d.get("options", {})
        for k in ("account", "time", "partition", "qos", "reservation", "gres", "mem", "tmp"):
            if exp.get(k) != got.get(k):
                self.bad("wrong_group_params", "batch submitted with another group's HPC parameters",
                         f"batch {n} (group {gname}): {k}={got.get(k)!r}, group has {exp.get(k)!r}")
        ro = d.get("run_opts", {})
        if ro.get("num_parallel_processes_per_node") != p.get("num_parallel_processes_per_node"):
            self.bad("wrong_run_options", "batch runs with another group's run options",
                     f"batch {n} (group {gname}): processes-per-node {ro.get('num_parallel_processes_per_node')} != {p.get('num_parallel_processes_per_node')}")
        if ro.get("distributed_submitter") != bool(p.get("distributed_submitter", True)):
            self.bad("wrong_run_options", "batch runs with another group's run options",
                     f"batch {n} (group {gname}): distributed_submitter {ro.get('distributed_submitter')}")
        if bool(ro.get("verbose")) != bool(p.get("verbose")):
            self.bad("wrong_run_options", "batch runs with another group's run options",
                     f"batch {n} (group {gname}): verbose {ro.get('verbose')}")
        # blocked-job rule (in a resubmission epoch: for the blockers that are being rerun themselves)
        if True:
            have = None
            for j in jobs:
                bs = sc.blockers.get(j, [])
                if sub.epoch > 0:
                    bs = [b for b in bs if b in sub.rerun_names]
                if not bs:
                    continue
                if have is None:
                    have = state.names_with_rows(sub.out)
                for b in bs:
                    if b in have:
                        continue
                    self.w.probe("blocked_job_in_batch")
                    if not p.get("try_add_blocked_jobs"):
                        self.bad("blocked_job_included", "job with unfinished blocker in a batch although try-add-blocked is off",
                                 f"batch {n}: {j} blocked by {b}")
                    elif b not in jobs:
                        self.bad("blocker_not_in_batch", "job with unfinished blocker in a batch without that blocker",
                                 f"batch {n}: {j} blocked by {b}; batch={jobs}")
                    elif b not in (d.get("blocked_by", {}).get(j) or []):
                        self.bad("blocker_not_recorded", "batch config does not tell the node to wait for an unfinished blocker",
                                 f"batch {n}: {j} blocked by {b}; batch config blocked_by={d.get('blocked_by', {}).get(j)}")

    def _c18(self, sub, sc, d, jobs, n, seq):
        gs = self._group_of_batch(sc, jobs)
        if len(gs) != 1:
            return
        grp = sc.groups[next(iter(gs))]
        exp = expected_sbatch_options(grp, n, sub.out)
        got = d.get("options", {})
        if d.get("why") == "bad_option":
            self.bad("unknown_sbatch_option", "submission script uses an option sbatch does not know",
                     f"{d.get('bad')}", "C18")
            return
        if got != exp:
            extra = {k: got[k] for k in got if k not in exp}
            miss = {k: exp[k] for k in exp if k not in got}
            diff = {k: (got[k], exp[k]) for k in got if k in exp and got[k] != exp[k]}
            self.bad("script_options", "submission script options differ from the configuration",
                     f"batch {n}: unexpected={extra} missing={miss} different={diff}", "C18")
        if d.get("run_lines", 1) != 1:
            self.bad("run_script_content", "the batch's run script does not run exactly this batch",
                     f"batch {n}: {d.get('run_lines')} run-jobs command lines in {d.get('run_script')}", "C18")
        rs = d.get("run_script")
        if rs != f"{sub.outrel}/run_batch_{n}.sh":
            self.bad("script_target", "submission script does not run the batch's run script",
                     f"batch {n}: srun {rs}", "C18")


# --------------------------------------------------------------------------- C09
class C09(Monitor):
    prop = "C09"

    def __init__(self, ctx):
        super().__init__(ctx)
        self.base = {}
        self.states = set()

    def on_status(self, sub, o):
        if sub.sc.mode != "hpc":
            return
        if not sub.monitoring:
            return
        seq = o["seq"]
        if o.get("err") or o.get("cfg") is None or o.get("js") is None:
            # lock free but status unreadable
            if self._local_teardown(sub):
                return
            self.bad("unreadable", "status unreadable while the cluster lock is free",
                     f"seq {seq}: {o.get('err') or 'status file absent'} (while {self._actors()})")
            return
        cfg, js = o["cfg"], o["js"]
        jobs = js.get("jobs", [])
        n_done = sum(1 for j in jobs if j["state"] == "done")
        n_sub = sum(1 for j in jobs if j["state"] == "submitted")
        comp, subm, num = cfg["completed_jobs"], cfg["submitted_jobs"], cfg["num_jobs"]
        self.states.add((tuple(j["state"][0] for j in jobs), len(js.get("hpc_job_ids", [])),
                         cfg.get("submitter") is not None, cfg.get("is_complete"), cfg.get("is_canceled")))
        ctxs = f"seq {seq} v{cfg.get('version')}/{js.get('version')} (while {self._actors()})"
        if not (comp <= subm <= num):
            self.bad("counter_order", "completed <= submitted <= total violated", f"{comp}/{subm}/{num} at {ctxs}")
        if comp != n_done:
            self.bad("completed_count", "completed counter differs from number of done jobs",
                     f"completed={comp} done={n_done} at {ctxs}")
        if subm != n_sub + n_done:
            self.bad("submitted_count", "submitted counter differs from number of submitted or done jobs",
                     f"submitted={subm} marked={n_sub}+{n_done} at {ctxs}")
        for j in jobs:
            if j["state"] in ("submitted", "done") and j.get("blocked_by"):
                self.bad("blockers_not_empty", "submitted/done job still lists remaining blockers",
                         f"{j['name']} {j['state']} blocked_by={j['blocked_by']} at {ctxs}")
        if n_done:
            have = state.names_with_rows(sub.out)
            for j in jobs:
                if j["state"] == "done" and j["name"] not in have:
                    self.bad("done_without_result", "job marked done has no recorded result",
                             f"{j['name']} at {ctxs}")
        if o["cv"] != cfg.get("version"):
            self.bad("version_file", "version file differs from version inside the status file",
                     f"config_version.txt={o['cv']} cluster_config.json={cfg.get('version')} at {ctxs}")
        if o["jv"] != js.get("version"):
            self.bad("version_file", "version file differs from version inside the status file",
                     f"job_status_version.txt={o['jv']} job_status.json={js.get('version')} at {ctxs}")
        # monotonicity within an epoch
        b = self.base.get(sub.outrel)
        if b is not None and b["epoch"] == sub.epoch:
            pc, pj = b["cfg"], b["js"]
            if cfg["completed_jobs"] < pc["completed_jobs"] or cfg["submitted_jobs"] < pc["submitted_jobs"]:
                self.bad("counter_decreased", "a counter decreased between resubmissions",
                         f"{pc['completed_jobs']}/{pc['submitted_jobs']} -> {comp}/{subm} at {ctxs}")
            if pc.get("is_complete") and not cfg.get("is_complete"):
                self.bad("uncompleted", "complete submission became incomplete", ctxs)
            order = {"not_submitted": 0, "submitted": 1, "done": 2}
            pstate = {j["name"]: j for j in pj.get("jobs", [])}
            for j in jobs:
                pjb = pstate.get(j["name"])
                if pjb is None:
                    continue
                if order[j["state"]] < order[pjb["state"]]:
                    self.bad("state_regressed", "job state moved backwards",
                             f"{j['name']}: {pjb['state']} -> {j['state']} at {ctxs}")
                if not set(j.get("blocked_by", [])) <= set(pjb.get("blocked_by", [])):
                    self.bad("blockers_grew", "remaining-blockers set grew",
                             f"{j['name']}: {sorted(pjb.get('blocked_by', []))} -> {sorted(j.get('blocked_by', []))} at {ctxs}")
            if _cfg_key(cfg) != _cfg_key(pc) and cfg["version"] <= pc["version"]:
                self.bad("version_not_increased", "status changed without a larger version number",
                         f"cluster_config v{pc['version']} -> v{cfg['version']} at {ctxs}")
            if _js_key(js) != _js_key(pj) and js["version"] <= pj["version"]:
                self.bad("version_not_increased", "status changed without a larger version number",
                         f"job_status v{pj['version']} -> v{js['version']} at {ctxs}")
        elif b is not None and b["epoch"] != sub.epoch:
            # the only documented backwards step: a successful resubmit-jobs
            if not any(v.alive and v.role == "resubmit-jobs" for v in self.w.vprocs):
                self.bad("uncompleted", "complete submission became incomplete without resubmit-jobs", ctxs)
        self.base[sub.outrel] = {"epoch": sub.epoch, "cfg": cfg, "js": js}

    def _actors(self):
        return ",".join(sorted({v.role for v in self.w.live})) or "nobody"

    def finish(self):
        self.w.status_states = self.states

    def _local_teardown(self, sub):
        return False


def _cfg_key(c):
    return json.dumps({k: v for k, v in c.items() if k != "version"}, sort_keys=True)


def _js_key(j):
    d = {k: v for k, v in j.items() if k != "version"}
    d["jobs"] = [dict(x, blocked_by=sorted(x.get("blocked_by", []))) for x in d.get("jobs", [])]
    return json.dumps(d, sort_keys=True)


# --------------------------------------------------------------------------- C16
class C16(Monitor):
    prop = "C16"

    def __init__(self, ctx):
        super().__init__(ctx)
        self.hooks = []

    def on_record(self, rec):
        seq, vt, kind, vpid, d = rec
        if kind != "hook":
            return
        sub = self.ctx.sub_for_abs((d.get("env") or {}).get("JADE_RUNTIME_OUTPUT"))
        h = dict(d, seq=seq, vp=vpid, sub=sub, epoch=sub.epoch if sub else None)
        self.hooks.append(h)
        if sub is None:
            self.bad("hook_env", "lifecycle command run without JADE_RUNTIME_OUTPUT naming the submission",
                     f"{d.get('hook')} env={d.get('env')}")
            return
        k = d.get("hook")
        sc = sub.sc
        if k == "setup":
            if any(b for b in sub.batches) or sub.launches:
                self.bad("setup_late", "setup command ran after a batch was handed to the HPC or a job started",
                         f"seq {seq}")
            if sum(1 for x in self.hooks if x["hook"] == "setup" and x["sub"] is sub) > 1:
                self.bad("setup_twice", "setup command ran more than once", f"seq {seq}")
            if self.w.vprocs[vpid].host != self.w.login_host and not self.w.scenario.get("pipeline"):
                self.bad("setup_host", "setup command did not run on the submitting host",
                         f"host {self.w.vprocs[vpid].host}")
        elif k == "teardown":
            if sub.epoch in sub.complete_seq:
                self.bad("teardown_after_complete", "teardown command ran after the completion flag was set",
                         f"seq {seq}")
            if sub.results_json_seq.get(sub.epoch) is None:
                self.bad("teardown_before_summary", "teardown command ran before the results summary was written",
                         f"seq {seq}")
            if sum(1 for x in self.hooks if x["hook"] == "teardown" and x["sub"] is sub and x["epoch"] == sub.epoch) > 1:
                self.bad("teardown_twice", "teardown command ran more than once for one completion", f"seq {seq}")
            live = [j.name for lst in self.w.shell.live_jobs.values() for j in lst if not j.done and not j.killed]
            if live:
                self.bad("teardown_early", "teardown command ran while jobs were still running", f"{live}")
        elif k == "node_setup":
            vp = self.w.vprocs[vpid]
            node = self._node_of(vp)
            if node is not None:
                if any(x["vp"] == node.id or self._node_of(self.w.vprocs[x["vp"]]) is node
                       for lst in sub.launches.values() for x in lst):
                    self.bad("node_setup_late", "node setup command ran after a job of the batch started", f"seq {seq}")
                if sum(1 for x in self.hooks if x["hook"] == "node_setup" and self._node_of(self.w.vprocs[x["vp"]]) is node) > 1:
                    self.bad("node_setup_twice", "node setup command ran twice for one batch", f"seq {seq}")
            j = self.w.node_job(vp)
            want_group = None
            if j is not None and j.jobs and j.jobs[0] in sc.spec:
                want_group = sc.spec[j.jobs[0]]["group"]
            elif sc.mode == "local":
                want_group = sc.default_group
            got = (d.get("env") or {}).get("JADE_SUBMISSION_GROUP")
            if want_group is not None and got != want_group:
                self.bad("node_setup_env", "node setup command ran without the documented environment",
                         f"JADE_SUBMISSION_GROUP={got!r}, batch group {want_group!r}")
        elif k == "node_teardown":
            vp = self.w.vprocs[vpid]
            node = self._node_of(vp)
            live = [j.name for j in self.w.shell.live_jobs.get(node.id if node else -1, []) if not j.done and not j.killed]
            if live:
                self.bad("node_teardown_early", "node teardown command ran while jobs of the batch were running",
                         f"{live}")
            if node is not None and sum(1 for x in self.hooks if x["hook"] == "node_teardown"
                                        and self._node_of(self.w.vprocs[x["vp"]]) is node) > 1:
                self.bad("node_teardown_twice", "node teardown command ran twice for one batch", f"seq {seq}")

    def _node_of(self, vp):
        x = vp
        while x is not None:
            if x.role == "node" or x.parent is None:
                return x
            x = x.parent
        return None

    def on_status(self, sub, o):
        if o.get("completed_now") and "teardown" in sub.sc.hooks:
            n = sum(1 for x in self.hooks if x["hook"] == "teardown" and x["sub"] is sub and x["epoch"] == sub.epoch)
            if n != 1:
                self.bad("teardown_count", "teardown command did not run exactly once before completion",
                         f"{n} runs before is_complete at seq {o['seq']} (epoch {sub.epoch})")

    def finish(self):
        ctx = self.ctx
        w = self.w
        if not ctx.clean_run():
            return
        for sub in ctx.subs.values():
            sc = sub.sc
            started = bool(sub.batches or sub.launches)
            if "setup" in sc.hooks and started:
                n = sum(1 for x in self.hooks if x["hook"] == "setup" and x["sub"] is sub)
                if n != 1:
                    self.bad("setup_count", "setup command did not run exactly once", f"{n} runs")
            if "setup" not in sc.hooks and any(x["hook"] == "setup" and x["sub"] is sub for x in self.hooks):
                self.bad("setup_unconfigured", "setup command ran although none is configured", "")
            # per batch node hooks
            nodes = [v for v in w.vprocs if v.role == "node" and w.node_job(v) is not None
                     and w.node_job(v).output_dir == sub.out]
            if sc.mode == "local":
                nodes = [v for v in w.vprocs if v.role == "submit-jobs"]
            for node in nodes:
                ran_to_end = node.exit_code is not None and not node.killed
                mine = [x for x in self.hooks if self._node_of(w.vprocs[x["vp"]]) is node]
                ns = sum(1 for x in mine if x["hook"] == "node_setup")
                nt = sum(1 for x in mine if x["hook"] == "node_teardown")
                launched = any(x["vp"] == node.id for lst in sub.launches.values() for x in lst)
                if "node_setup" in sc.hooks and launched and ns != 1:
                    self.bad("node_setup_count", "node setup command did not run exactly once for a batch that started jobs",
                             f"{ns} runs on {node.host}")
                if "node_teardown" in sc.hooks and ran_to_end and launched and nt != 1:
                    crash = node.crash and (node.crash["type"], node.crash["where"])
                    self.bad("node_teardown_count", "node teardown command did not run exactly once for a batch that ran to its end",
                             f"{nt} runs on {node.host}; node exit={node.exit_code} crash={crash}")
                if sc.mode == "hpc" and ran_to_end and launched and ("node_setup" in sc.hooks or "node_teardown" in sc.hooks):
                    j = w.node_job(node)
                    dist = j is not None and j.run_opts.get("distributed_submitter")
                    if dist and not any(c.role == "try-submit-jobs" for c in node.children):
                        self.bad("closing_round_skipped",
                                 "a batch with node lifecycle commands did not run its closing try-submit-jobs (its results are not collected)",
                                 f"node {node.host} exit={node.exit_code}; node hooks rc={[(x['hook'], x['rc']) for x in mine]}")
                if node.crash and ("node_setup" in sc.hooks or "node_teardown" in sc.hooks) and sc.mode == "hpc":
                    self.bad("node_hook_crash", "batch with node lifecycle commands crashed",
                             f"{node.crash['type']} at {node.crash['where']}: {node.crash['msg'][:120]}")


# --------------------------------------------------------------------------- C18 status + retries (world level)
class C18World(Monitor):
    prop = "C18"

    def __init__(self, ctx):
        super().__init__(ctx)
        self.last_squeue = {}   # root vp id -> rows of last full squeue
        self.ids_before = {}
        self.garbage = []
        self.ids_read = {}

    def on_record(self, rec):
        seq, vt, kind, vpid, d = rec
        w = self.w
        if kind == "squeue":
            if d.get("attempt", 1) > 7:
                self.bad("too_many_attempts", "external command executed more than the configured retries",
                         f"squeue attempt {d.get('attempt')}")
            if d.get("ok") and d.get("jid") is None:
                self.last_squeue[vpid] = {i: s for i, s in d.get("rows", [])}
        elif kind == "lock_release" and d.get("path", "").endswith("cluster_config.json.lock") \
                and w.vprocs[vpid].role == "show-status":
            sub = self.ctx.sub_for_path(d["path"])
            if sub is not None:
                try:
                    _, js = state.read_status(sub.out)
                    self.ids_read[vpid] = list((js or {}).get("hpc_job_ids", []))
                except state.Unparsable:
                    pass
        elif kind == "fs" and d.get("op") == "create" and d.get("path", "").endswith("/submitter.lock"):
            # a submitter round starts acting: remember the persisted ids before it
            sub = self.ctx.sub_for_path(d["path"])
            if sub is None:
                return
            try:
                _, js = state.read_status(sub.out)
            except state.Unparsable:
                return
            self.ids_before[vpid] = set((js or {}).get("hpc_job_ids", []))
        elif kind == "fs" and d.get("op") in ("remove", "unlink") and d.get("path", "").endswith("/submitter.lock"):
            sub = self.ctx.sub_for_path(d["path"])
            if sub is None or vpid not in self.ids_before:
                return
            try:
                _, js = state.read_status(sub.out)
            except state.Unparsable:
                return
            after = set((js or {}).get("hpc_job_ids", []))
            seen = self.last_squeue.get(vpid)
            if seen is None:
                return
            for i in self.ids_before.pop(vpid):
                st = seen.get(i)
                if st is not None and st not in FINISHED_OK and i not in after:
                    self.bad("unfinished_treated_finished", "batch reported in a non-finished state was treated as finished",
                             f"id {i} listed as {st} by squeue but dropped from active ids by {w.vprocs[vpid].role}")
        elif kind == "spawn" and d.get("role") == "try-submit-jobs":
            vp = w.vprocs[vpid]
            if vp.parent is not None and vp.parent.role == "show-status":
                # show-status offers the recovery only if every persisted id is gone from the scheduler
                sub = next((s_ for s_ in self.ctx.subs.values() if s_.out in vp.argv), None)
                if sub is not None:
                    # the ids show-status itself read (under the lock), not what is persisted by now
                    ids = self.ids_read.get(vp.parent.id, [])
                    held = [i for i in ids if w.slurm.holds(i)
                            and w.slurm.jobs[str(i)].state not in ("COMPLETED",)]
                    w.probe("show_status_recovery")
                    if held:
                        self.bad("show_status_recovery_with_live_batch",
                                 "show-status started the recovery while the scheduler still holds a batch of the submission",
                                 f"ids {[(i, w.slurm.jobs[str(i)].state) for i in held]}")
        elif kind == "sbatch" and d.get("why") == "garbage":
            w.probe("sbatch_garbage")
            sub = self.ctx.sub_for_path(d.get("output"))
            if sub is not None:
                self.garbage.append((sub, sub.epoch, list(d.get("jobs", [])), d.get("batch")))

    def finish(self):
        # an unparsable submit response is a failed submission: its jobs never ran
        for sub, ep, jobs, n in self.garbage:
            for j in jobs:
                other = [b for b in sub.batches if b["epoch"] == ep and j in b["jobs"] and b["n"] != n and b["ok"]]
                if not other and sub.launches_in_epoch(j, ep):
                    self.bad("garbage_response_ran", "jobs of a batch whose submit response was unparsable were started",
                             f"batch {n}: {j}")
        for sub in self.ctx.subs.values():
            try:
                _, js = state.read_status(sub.out)
            except state.Unparsable:
                continue
            for i in (js or {}).get("hpc_job_ids", []):
                if not str(i).isdigit():
                    self.bad("bogus_job_id", "a non-numeric HPC job id was recorded", f"{i!r}")

    def on_status(self, sub, o):
        # forced completion must not happen while SimSlurm holds an unfinished batch
        if o.get("completed_now"):
            act = self.w.slurm.active_of(sub.out)
            js = o.get("js") or {}
            n_done = sum(1 for j in js.get("jobs", []) if j["state"] == "done")
            if act and n_done < len(js.get("jobs", [])):
                self.bad("forced_completion_with_active_batch",
                         "submission force-completed while the scheduler still holds an unfinished batch",
                         f"active {[(j.id, j.state) for j in act]} at seq {o['seq']}")


# --------------------------------------------------------------------------- C19
class C19(Monitor):
    prop = "C19"

    def __init__(self, ctx):
        super().__init__(ctx)
        self.stdio = {}

    def on_record(self, rec):
        seq, vt, kind, vpid, d = rec
        if kind != "job_launch":
            return
        env = d.get("env") or {}
        sub = self.ctx.sub_for_abs(env.get("JADE_RUNTIME_OUTPUT"))
        name = d.get("name")
        if sub is None:
            self.bad("env_output", "job started without JADE_RUNTIME_OUTPUT naming the output directory",
                     f"job {name}: {env}")
            return
        sc = sub.sc
        if name not in sc.spec:
            self.bad("env_name", "job started with a JADE_JOB_NAME that is not a configured job", f"{name}")
            return
        want = sc.expected_argv(name, sub.out)
        src = d.get("probe") or {}
        got = src.get("argv") or d.get("argv")
        if got != want:
            self.bad("argv", "job command not executed as configured", f"job {name}: argv={got!r} expected={want!r}")
        if env.get("JADE_RUNTIME_OUTPUT") != sub.out:
            self.bad("env_output", "JADE_RUNTIME_OUTPUT is not the output directory", f"{env}")
        if src:
            penv = src.get("env", {})
            if penv.get("JADE_JOB_NAME") != name or penv.get("JADE_RUNTIME_OUTPUT") != sub.out:
                self.bad("env_name", "real child process did not see the documented environment", f"{penv}")
        so, se = d.get("stdout"), d.get("stderr")
        if not so or not se or so == se:
            self.bad("stdio", "job does not have its own stdout and stderr files", f"job {name}: {so} {se}")
        for f in (so, se):
            k = (sub.outrel, sub.epoch, f)
            if k in self.stdio and self.stdio[k] != name:
                self.bad("stdio_shared", "two jobs share a stdout/stderr file", f"{f}: {self.stdio[k]} and {name}")
            self.stdio[k] = name

    def finish(self):
        ctx = self.ctx
        for sub in ctx.subs.values():
            try:
                rows = [r for _, r in state.all_rows(sub.out)]
            except state.Unparsable:
                continue
            for r in rows:
                n = r["name"]
                if r["status"] != "finished" or n not in sub.sc.spec:
                    continue
                ls = sub.launches_in_epoch(n)
                if not ls:
                    ls = sub.launches.get(n, [])
                if not ls:
                    self.bad("result_without_launch", "finished result for a job that was never started", f"{n}")
                    continue
                l = ls[-1]
                real_rc = l["rec"].get("probe", {}).get("rc") if l["rec"].get("probe") else int(sub.sc.spec[n]["rc"])
                if r["return_code"] != real_rc:
                    self.bad("exit_code", "recorded return code differs from the job's real exit code",
                             f"{n}: recorded {r['return_code']} real {real_rc}")
                want_id = l["slurm_id"]
                if (r["hpc_job_id"] or None) != (want_id or None):
                    self.bad("hpc_job_id", "recorded HPC job id differs from the node that ran the job",
                             f"{n}: recorded {r['hpc_job_id']} ran on {want_id}")


# --------------------------------------------------------------------------- C20 (tallies + events)
class C20(Monitor):
    prop = "C20"

    def __init__(self, ctx):
        super().__init__(ctx)
        self.events = {}   # outrel -> list of (line, path, seq)
        self.consolidated = {}  # outrel -> (seq, set of job event files not yet aggregated by their node)

    def on_record(self, rec):
        seq, vt, kind, vpid, d = rec
        if kind == "event":
            sub = self.ctx.sub_for_path(d.get("path"))
            if sub is not None:
                self.events.setdefault(sub.outrel, []).append((d["line"], d.get("path"), seq))
        elif kind == "fs":
            p = d.get("path", "")
            sub = self.ctx.sub_for_path(p)
            if sub is None:
                return
            base = p[len(sub.outrel) + 1:]
            if base.startswith("events/") and d.get("op") in ("remove", "unlink"):
                self.consolidated.pop(sub.outrel, None)
        elif kind == "consolidate_begin":
            # the one-shot consolidation reads the per-process event files at this instant
            sub = self.ctx.sub_for_path(d.get("out"))
            if sub is not None and sub.outrel not in self.consolidated:
                # exactly what the consolidation can see: the lines of the top-level *events.log files
                import collections
                import glob

                vis = collections.Counter()
                for p in glob.glob(os.path.join(sub.out, "*events.log")):
                    try:
                        with open(p) as f:
                            for ln in f.read().split("\n"):
                                if ln:
                                    vis[ln] += 1
                    except OSError:
                        pass
                self.consolidated[sub.outrel] = (seq, vis)

    def finish(self):
        ctx = self.ctx
        for sub in ctx.subs.values():
            rjp = os.path.join(sub.out, "results.json")
            if not os.path.exists(rjp):
                continue
            try:
                rj = state.read_json(rjp)
            except state.Unparsable as e:
                if ctx.fault_free:
                    self.bad("summary_unparsable", "results.json does not parse", str(e))
                continue
            self._tally(sub, rj)
            if ctx.clean_run() and (is_fault_free_complete(ctx, sub) or sub.sc.mode == "local"):
                self._events(sub)
                self._stats(sub)

    def _tally(self, sub, rj):
        res = rj.get("results", [])
        summ = rj.get("results_summary", {})
        miss = rj.get("missing_jobs", [])
        cls = {"successful": 0, "failed": 0, "canceled": 0}
        names = []
        for r in res:
            c = state.classify(r)
            if c not in cls:
                self.bad("tally_class", "result entry in none of successful/failed/canceled", f"{r}")
                continue
            cls[c] += 1
            names.append(r["name"])
        got = (summ.get("num_successful"), summ.get("num_failed"), summ.get("num_canceled"), summ.get("num_missing"))
        want = (cls["successful"], cls["failed"], cls["canceled"], len(miss))
        if got != want:
            self.bad("tally_counts", "results summary counts differ from the entries", f"summary {got} entries {want}")
        allj = sorted(names + list(miss))
        if allj != sorted(sub.sc.names):
            self.bad("tally_partition", "successful/failed/canceled/missing do not partition the configured jobs",
                     f"results+missing={allj} configured={sorted(sub.sc.names)}")

    def _events(self, sub):
        from jade.events import EventsSummary

        cons = self.consolidated.get(sub.outrel)
        truth = {}
        late = {}
        # events of a job whose node was killed (scancel after cancel-jobs) can die with the node:
        # JobRunner._aggregate_events removes the job's file before its own buffered copy is
        # flushed.  C20 does not quantify over crash points, so these are optional (never twice).
        killed_hosts_jobs = set()
        for n, ls in sub.launches.items():
            for l in ls:
                vp = self.w.vprocs[l["vp"]]
                node = vp
                while node.parent is not None:
                    node = node.parent
                if node.killed and node.kill_reason != "reap":
                    killed_hosts_jobs.add(n)
        for line, path, seq in self.events.get(sub.outrel, []):
            try:
                ev = json.loads(line)
            except ValueError:
                continue
            if path and "/job-outputs/" in path and ev.get("source") in killed_hosts_jobs:
                late.setdefault(ev["name"], []).append(dict(ev, _optional=True))
                continue
            if cons is not None:
                vis = cons[1]
                if vis.get(line, 0) > 0:
                    vis[line] -= 1
                else:
                    # not in any per-process event file when the one-shot consolidation read them:
                    # written later, or still on its way from a job's file into its node's file
                    late.setdefault(ev["name"], []).append(ev)
                    continue
            truth.setdefault(ev["name"], []).append(ev)
        try:
            summ = EventsSummary(sub.out)
            for name in sorted(set(truth) | set(late)):
                got = [e.to_dict() for e in summ.list_events(name)]
                want = truth.get(name, [])
                g = sorted(json.dumps(_evnorm(x), sort_keys=True) for x in got)
                wv = sorted(json.dumps(_evnorm(x), sort_keys=True) for x in want)
                lv = sorted(json.dumps(_evnorm(x), sort_keys=True) for x in late.get(name, []))
                if g != wv:
                    lost = [x for x in wv if x not in g]
                    extra = [x for x in g if x not in wv and x not in lv]
                    if lost or extra or len(g) > len(wv) + len(lv):
                        self.bad("events_lost_or_duplicated", "consolidated events differ from the events written",
                                 f"{name}: written {len(wv)} consolidated {len(g)} lost={lost[:2]} extra={extra[:2]}")
                opt = {json.dumps(_evnorm(x), sort_keys=True) for x in late.get(name, []) if x.get("_optional")}
                missing_late = [x for x in lv if x not in g and x not in opt]
                if missing_late:
                    self.bad("events_after_consolidation",
                             "events written or aggregated after the one-shot consolidation are missing from the summary",
                             f"{name}: {len(missing_late)} events logged while a batch was still finishing after "
                             f"the submission had been completed: {missing_late[:1]}")
                ts = [x["timestamp"] for x in got]
                if ts != sorted(ts):
                    self.bad("events_unsorted", "events of one name are not ordered by time", f"{name}: {ts}")
                # loading again does not change it
                again = [e.to_dict() for e in EventsSummary(sub.out).list_events(name)]
                if [json.dumps(_evnorm(x), sort_keys=True) for x in again] != \
                        [json.dumps(_evnorm(x), sort_keys=True) for x in got]:
                    self.bad("events_reload_differs", "loading the consolidated events again gives a different list", name)
            if not late:
                # consolidating again from scratch gives the same summary
                import shutil

                evdir = os.path.join(sub.out, "events")
                first = {n: [json.dumps(_evnorm(e.to_dict()), sort_keys=True) for e in summ.list_events(n)] for n in truth}
                shutil.rmtree(evdir, ignore_errors=True)
                summ2 = EventsSummary(sub.out)
                second = {n: [json.dumps(_evnorm(e.to_dict()), sort_keys=True) for e in summ2.list_events(n)] for n in truth}
                for n in truth:
                    if sorted(first[n]) != sorted(second[n]):
                        self.bad("events_reconsolidation_differs", "consolidating again changes the event summary",
                                 f"{n}: {len(first[n])} then {len(second[n])}")
            self.w.probe("events_checked")
            if late:
                self.w.probe("events_late")
        except Exception as e:  # noqa: BLE001
            self.bad("events_summary_error", "consolidating events raised", f"{type(e).__name__}: {e}")

    def _stats(self, sub):
        w = self.w
        sdir = os.path.join(sub.out, "stats")
        by_vp = {}
        for (vpid, group, name), vals in w.stats_served.items():
            if group in ("cpu", "memory") or group.startswith("proc:"):
                by_vp.setdefault(vpid, {}).setdefault(group, {})[name] = vals
        for vpid, groups in by_vp.items():
            vp = w.vprocs[vpid]
            if vp.killed or vp.crash:
                continue
            j = w.node_job(vp)
            if sub.sc.mode == "hpc":
                if j is None or j.output_dir != sub.out:
                    continue
                fname = f"resource_monitor_batch_{j.batch_index}_0_resource_stats.json"
            else:
                fname = "resource_monitor_batch_0_0_resource_stats.json"
            path = os.path.join(sdir, fname)
            if not os.path.exists(path):
                continue
            try:
                data = state.read_json(path)
            except state.Unparsable as e:
                self.bad("stats_unparsable", "resource stats file does not parse", str(e))
                continue
            w.probe("stats_checked")
            reported = {ent.get("name") for ent in data if ent.get("type") == "Process"}
            for grp in groups:
                if grp.startswith("proc:") and grp[5:] not in reported:
                    self.bad("stats_process_missing", "a sampled job process is missing from the aggregated report",
                             f"{fname}: {grp[5:]} sampled {len(next(iter(groups[grp].values())))} times")
                    return
            for ent in data:
                if ent.get("type") == "Process":
                    series = groups.get("proc:" + str(ent.get("name")))
                    if series is None:
                        self.bad("stats_process_unknown", "the aggregated report names a process that was never sampled",
                                 f"{fname}: {ent.get('name')}")
                        return
                    w.probe("process_stats_checked")
                    for stat, vals in series.items():
                        vals = [int(v * 1000) for v in vals] if stat == "rss" else vals
                        for key, fn in (("minimum", min), ("maximum", max), ("average", lambda v: sum(v) / len(v))):
                            got = ent.get(key, {}).get(stat)
                            if got is None or abs(fn(vals) - got) > 1e-6 * max(1.0, abs(got)):
                                self.bad("stats_process_" + key, f"aggregated per-process {key} differs from the samples taken",
                                         f"{ent.get('name')}.{stat}: reported {got}, samples {vals[:8]} true {fn(vals)} "
                                         f"(pattern {w.stat_patterns.get((vpid, 'proc:' + str(ent.get('name')), stat))})")
                                return
                    continue
                typ = {"CPU": "cpu", "Memory": "memory"}.get(ent.get("type"), None)
                if typ is None or typ not in groups:
                    continue
                for stat, vals in groups[typ].items():
                    if len(vals) < 2:
                        continue
                    cands = [vals[1:], vals]  # priming sample excluded or included
                    for key, fn in (("minimum", min), ("maximum", max), ("average", lambda v: sum(v) / len(v))):
                        got = ent.get(key, {}).get(stat)
                        if got is None:
                            continue
                        if not any(abs(fn(c) - got) < 1e-6 * max(1.0, abs(got)) for c in cands):
                            self.bad("stats_" + key, f"aggregated {key} differs from the samples taken",
                                     f"{ent.get('type')}.{stat}: reported {got}, samples {vals[:6]}... "
                                     f"true {fn(vals[1:])} (pattern {w.stat_patterns.get((vpid, typ, stat))})")
                            return


def _evnorm(ev):
    return {k: ev.get(k) for k in ("category", "data", "event_class", "message", "name", "source", "timestamp")}


# --------------------------------------------------------------------------- C08 (world level)
class C08World(Monitor):
    prop = "C08"

    def __init__(self, ctx):
        super().__init__(ctx)
        self.seen = {}
        self.exits = {}
        self.last_sub = {}
        self.last_writer = {}
        self.pending = {}    # root vproc id of a command that released the role -> (seq, unreported names)

    def _root(self, vpid):
        if vpid is None or vpid < 0:
            return None
        vp = self.w.vprocs[vpid]
        while vp.parent is not None and vp.parent.role != "node":
            vp = vp.parent
        return vp.id

    def on_status(self, sub, o):
        """'Reported as newly completed to exactly one submitter round': a round that moves a result into
        the consolidated file also reports it, which makes the job `done` in the status it persists.  At the
        instant a command releases the submitter role every consolidated result therefore belongs to a done
        job (checked for commands that end normally, in histories without a crashed process)."""
        cfg, js = o.get("cfg"), o.get("js")
        if cfg is None or js is None or sub.sc.mode != "hpc":
            return
        cur = cfg.get("submitter")
        prev = self.last_sub.get(sub.outrel, "<none yet>")
        self.last_sub[sub.outrel] = cur
        if prev in (None, "<none yet>") or cur is not None:
            return
        root = self._root(self.last_writer.get(sub.outrel))
        if root is None:
            return
        try:
            rows = state.read_rows(os.path.join(sub.out, "processed_results.csv")) or []
        except state.Unparsable:
            return
        done = {j["name"] for j in js.get("jobs", []) if j.get("state") == "done"}
        pend = sorted({r["name"] for r in rows} - done)
        self.w.probe("role_release_checked")
        if pend:
            self.pending[root] = (o["seq"], pend)

    def on_record(self, rec):
        seq, vt, kind, vpid, d = rec
        if kind == "job_exit":
            self.exits.setdefault(d["name"], []).append(d)
        elif kind == "fs" and d.get("op") == "write" and d.get("path", "").endswith("/cluster_config.json"):
            sub = self.ctx.sub_for_path(d["path"])
            if sub is not None:
                self.last_writer[sub.outrel] = vpid
        elif kind == "exit" and vpid in self.pending:
            seqp, pend = self.pending.pop(vpid)
            vp = self.w.vprocs[vpid]
            if (d.get("rc") == 0 and not vp.crash and not vp.killed and self.ctx.fault_free
                    and not any(v.crash or (v.killed and v.kill_reason != "reap") for v in self.w.vprocs)):
                self.bad("collected_but_not_reported", "a consolidated result was not reported to the round that collected it",
                         f"{vp.role} released the role at seq {seqp} and ended normally; consolidated results of "
                         f"{pend} belong to jobs that are not marked done")
        if kind != "lock_release" or not d.get("path", "").endswith("processed_results.csv.lock"):
            return
        sub = self.ctx.sub_for_path(d["path"])
        if sub is None or sub.epoch != 0:
            return
        try:
            rows = state.read_rows(os.path.join(sub.out, "processed_results.csv"))
        except state.Unparsable as e:
            self.bad("consolidated_unparsable", "the consolidated results file does not parse", f"seq {seq}: {e}")
            return
        if rows is None:
            return
        names = [r["name"] for r in rows]
        prev = self.seen.get(sub.outrel, [])
        if len(names) > len(prev):
            self.w.probe("collections")
        cnt = {}
        for n in names:
            cnt[n] = cnt.get(n, 0) + 1
            if cnt[n] == 2:
                self.bad("duplicate_row", "a result row is duplicated in the consolidated results", f"seq {seq}: {n}")
        for n in set(prev) - set(names):
            self.bad("row_lost", "a consolidated result row disappeared", f"seq {seq}: {n}")
        self.seen[sub.outrel] = names

    def finish(self):
        ctx = self.ctx
        if not ctx.clean_run():
            return
        for sub in ctx.subs.values():
            if sub.epoch != 0 or not is_fault_free_complete(ctx, sub):
                continue
            try:
                rows = state.read_rows(os.path.join(sub.out, "processed_results.csv")) or []
            except state.Unparsable:
                continue
            by = {}
            for r in rows:
                by.setdefault(r["name"], []).append(r)
            for n, ex in self.exits.items():
                if n not in sub.sc.spec:
                    continue
                fin = [r for r in by.get(n, []) if r["status"] == "finished"]
                if len(fin) != 1:
                    self.bad("exit_not_collected_once", "a job that exited does not have exactly one consolidated result",
                             f"{n}: {len(fin)} finished rows for {len(ex)} exits")
                elif fin[0]["return_code"] != ex[-1]["rc"]:
                    self.bad("cross_attributed", "consolidated result carries another exit code",
                             f"{n}: {fin[0]['return_code']} vs {ex[-1]['rc']}")


# --------------------------------------------------------------------------- C10 (world level)
class C10World(Monitor):
    """Mutual exclusion of the submitter role in full-world runs.  The role owner is the
    command (root vproc) that wrote the on-disk `submitter` from None to a host name (or
    created the cluster); submitter-only actions by any other command are violations."""

    prop = "C10"

    def __init__(self, ctx):
        super().__init__(ctx)
        self.owner = {}      # outrel -> root vproc id holding the role, or None
        self.last_sub = {}   # outrel -> last observed submitter value
        self.last_writer = {}

    def _root(self, vpid):
        if vpid is None or vpid < 0:
            return None
        vp = self.w.vprocs[vpid]
        while vp.parent is not None and vp.parent.role != "node":
            vp = vp.parent
        return vp.id

    def on_record(self, rec):
        seq, vt, kind, vpid, d = rec
        if kind == "fs":
            p = d.get("path", "")
            if p.endswith("/cluster_config.json") and d.get("op") == "write":
                sub = self.ctx.sub_for_path(p)
                if sub is not None:
                    self.last_writer[sub.outrel] = vpid
            if p.endswith("/processed_results.csv") and d.get("op") in ("write", "truncate"):
                sub = self.ctx.sub_for_path(p)
                if sub is not None and sub.monitoring and sub.sc.mode == "hpc":
                    self._act(sub, vpid, seq, "wrote the consolidated results")
            if p.endswith("/job_status.json") and d.get("op") == "write":
                sub = self.ctx.sub_for_path(p)
                if sub is not None and sub.monitoring and sub.sc.mode == "hpc":
                    self._act(sub, vpid, seq, "wrote the job status")
        elif kind == "sbatch" and d.get("attempt", 1) == 1:
            sub = self.ctx.sub_for_path(d.get("output"))
            if sub is not None:
                self._act(sub, vpid, seq, f"handed batch {d.get('batch')} to the HPC")

    def _act(self, sub, vpid, seq, what):
        own = self.owner.get(sub.outrel)
        r = self._root(vpid)
        if own is None:
            self.bad("acted_without_role", "a process performed a submitter-only action while nobody held the role",
                     f"seq {seq}: {self.w.vprocs[vpid].role} {what}")
        elif own != r:
            o = self.w.vprocs[own]
            self.bad("acted_while_other_holds_role", "a process performed a submitter-only action while another holds the role",
                     f"seq {seq}: {self.w.vprocs[vpid].role} on {self.w.vprocs[vpid].host} {what}; role held by "
                     f"{o.role} on {o.host} (alive={o.alive})")

    def finish(self):
        # nobody is running any more: the role must have been released (unless its holder was killed)
        w = self.w
        if not self.ctx.clean_run() or w.cut:
            return
        if any(v.killed and v.kill_reason != "reap" for v in w.vprocs):
            return
        for sub in self.ctx.subs.values():
            if sub.sc.mode != "hpc" or not sub.monitoring:
                continue
            lo = sub.last_obs
            if lo and lo.get("cfg") and lo["cfg"].get("submitter") is not None:
                crash = sorted({(v.role, v.crash["type"], v.crash["where"]) for v in w.vprocs if v.crash})
                self.bad("role_leaked", "the submitter role is still held although no process is running",
                         f"submitter={lo['cfg'].get('submitter')!r} at the end of a fault-free run; crashes={crash}")

    def on_status(self, sub, o):
        cfg = o.get("cfg")
        if cfg is None:
            return
        cur = cfg.get("submitter")
        prev = self.last_sub.get(sub.outrel, "<none yet>")
        writer = self._root(self.last_writer.get(sub.outrel))
        if prev == "<none yet>":
            if cur is not None:
                self.owner[sub.outrel] = writer
        elif prev is None and cur is not None:
            self.w.probe("role_handover")
            self.owner[sub.outrel] = writer
        elif prev is not None and cur is None:
            own = self.owner.get(sub.outrel)
            if own is not None and writer is not None and writer != own and self.w.vprocs[own].alive:
                wv = self.w.vprocs[writer]
                ov = self.w.vprocs[own]
                self.bad("role_stripped", "a process that was not promoted cleared the submitter role of a live submitter",
                         f"seq {o['seq']}: {wv.role} on {wv.host} cleared the role held by {ov.role} on {ov.host}")
            self.owner[sub.outrel] = None
        elif prev is not None and cur is not None and prev != cur:
            self.bad("role_overwritten", "the submitter role changed hands without being released",
                     f"seq {o['seq']}: {prev} -> {cur}")
            self.owner[sub.outrel] = writer
        self.last_sub[sub.outrel] = cur
