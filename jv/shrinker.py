"""Two-phase minimisation of a failing case (DESIGN.md section 6)."""
import concurrent.futures as cf
import copy
import time


def world_candidates(sc):
    """Simplifying edits of a world scenario, most drastic first."""
    out = []
    jobs = sc.get("jobs", [])
    n = len(jobs)
    if n > 1:
        for i in range(n - 1, -1, -1):
            c = copy.deepcopy(sc)
            nm = c["jobs"][i]["name"]
            del c["jobs"][i]
            for j in c["jobs"]:
                j["blocked_by"] = [b for b in j["blocked_by"] if b != nm]
            if not c["jobs"][0].get("explicit_name"):
                continue  # auto names are positional: dropping a job renames the others
            used = {j["group"] for j in c["jobs"]}
            c["groups"] = [g for g in c["groups"] if g["name"] in used] or c["groups"][:1]
            out.append(("drop job " + nm, c))
    if sc.get("user"):
        c = copy.deepcopy(sc)
        c["user"] = []
        out.append(("drop user cmds", c))
        for i in range(len(sc["user"])):
            c = copy.deepcopy(sc)
            del c["user"][i]
            out.append((f"drop user cmd {i}", c))
    if sc.get("hooks"):
        for k in list(sc["hooks"]):
            c = copy.deepcopy(sc)
            del c["hooks"][k]
            out.append(("drop hook " + k, c))
    for i, j in enumerate(jobs):
        for b in j["blocked_by"]:
            c = copy.deepcopy(sc)
            c["jobs"][i]["blocked_by"].remove(b)
            out.append((f"drop edge {b}->{j['name']}", c))
    for i, j in enumerate(jobs):
        if j.get("rc"):
            c = copy.deepcopy(sc)
            c["jobs"][i]["rc"] = 0
            out.append((f"rc0 {j['name']}", c))
        if j.get("cancel"):
            c = copy.deepcopy(sc)
            c["jobs"][i]["cancel"] = False
            out.append((f"noflag {j['name']}", c))
        if j.get("events"):
            c = copy.deepcopy(sc)
            c["jobs"][i]["events"] = 0
            out.append((f"noevents {j['name']}", c))
        if j.get("dur", 1.0) != 1.0:
            c = copy.deepcopy(sc)
            c["jobs"][i]["dur"] = 1.0
            out.append((f"dur1 {j['name']}", c))
    if len(sc.get("groups", [])) > 1:
        c = copy.deepcopy(sc)
        g0 = c["groups"][0]["name"]
        for j in c["jobs"]:
            j["group"] = g0
            if c["groups"][0]["params"].get("time_based_batching") and j.get("est") is None:
                j["est"] = 1
        c["groups"] = c["groups"][:1]
        out.append(("one group", c))
    env = sc.get("env", {})
    defaults = {"list_mode": 0, "queue_wait": "immediate", "terminal_listed_s": 0.0, "squeue_pad": 20, "lat": None,
                "skew": 0.0, "host_pool": 0, "foreign_jobs": 0, "p_stall": 0.0, "p_preempt": 0.0, "p_configuring": 0.0, "p_exotic_state": 0.0,
                "first_job_id": 8100000, "stick": 0.85, "min_job_age": 300.0, "op_lat": 0.0}
    for k, v in defaults.items():
        if k in env and env[k] != v:
            c = copy.deepcopy(sc)
            if v is None:
                c["env"].pop(k, None)
            else:
                c["env"][k] = v
            out.append((f"env {k}", c))
    for gi, g in enumerate(sc.get("groups", [])):
        p = g["params"]
        for k, v in (("generate_reports", False), ("resource_monitor_type", "none"), ("verbose", False),
                     ("max_nodes", None), ("num_parallel_processes_per_node", None)):
            if p.get(k) != v and not (k == "num_parallel_processes_per_node" and p.get("time_based_batching")):
                c = copy.deepcopy(sc)
                for gg in c["groups"]:
                    if k == "max_nodes" or gg is c["groups"][gi]:
                        gg["params"][k] = v
                out.append((f"group{gi} {k}", c))
    f = sc.get("faults")
    if f and f.get("sites") and len(f["sites"]) > 1:
        for i in range(len(f["sites"])):
            c = copy.deepcopy(sc)
            del c["faults"]["sites"][i]
            out.append((f"drop fault {i}", c))
    if sc.get("script"):
        for i in range(len(sc["script"]) - 1, -1, -1):
            c = copy.deepcopy(sc)
            del c["script"][i]
            out.append((f"drop script step {i}", c))
    return out


def shrink(pool, prof_name, props, case, sig, budget_s, task_eval, n_seeds=16):
    from . import profiles

    prof = profiles.PROFILES[prof_name]
    cand_fn = prof.get("shrink_candidates") or world_candidates
    deadline = time.time() + budget_s
    best = {"seed": case["seed"], "scenario": case["scenario"], "trace": case["trace"],
            "message": case["message"], "digest": case["digest"]}

    def evaluate(cands):
        """cands: list of (scenario, seed, trace).  Returns first success (in order) or None."""
        futs = [pool.submit(task_eval, (prof_name, seed, props, sc, tr, list(sig))) for sc, seed, tr in cands]
        res = None
        for i, f in enumerate(futs):
            try:
                r = f.result(timeout=max(5.0, deadline - time.time() + 30))
            except Exception:  # noqa: BLE001
                r = None
            if r is not None and res is None:
                res = (i, r)
        return res

    # phase 1: scenario edits, re-searched over a small batch of seeds
    progress = True
    rounds = 0
    while progress and time.time() < deadline and rounds < 40:
        progress = False
        rounds += 1
        for label, sc in cand_fn(best["scenario"]):
            if time.time() > deadline:
                break
            cands = [(sc, best["seed"], best["trace"])]
            cands += [(sc, f"{best['seed']}~{rounds}.{k}", None) for k in range(n_seeds)]
            hit = evaluate(cands)
            if hit is not None:
                i, r = hit
                best = {"seed": cands[i][1], "scenario": sc, "trace": r["trace"], "message": r["message"],
                        "digest": r["digest"]}
                progress = True
                break
    # phase 2: exact trace shrinking
    trace = list(best["trace"])

    def attempt(trs):
        cands = [(best["scenario"], best["seed"], t) for t in trs]
        return evaluate(cands)

    # truncate
    lo, hi = 0, len(trace)
    while lo < hi and time.time() < deadline:
        mids = sorted({lo + (hi - lo) * k // 5 for k in range(1, 5)} - {hi})
        if not mids:
            break
        hit = attempt([trace[:m] for m in mids])
        if hit is not None:
            i, r = hit
            hi = mids[i]
            trace = trace[:hi]
            best.update(trace=list(r["trace"]), message=r["message"], digest=r["digest"])
            trace = list(r["trace"])
            hi = min(hi, len(trace))
        else:
            lo = mids[-1] + 1 if mids[-1] + 1 <= hi else hi
            if mids[-1] >= hi - 1:
                break
    # zero blocks
    size = max(1, len(trace) // 2)
    while size >= 1 and time.time() < deadline:
        i = 0
        changed = False
        while i < len(trace) and time.time() < deadline:
            batch = []
            idx = []
            j = i
            while j < len(trace) and len(batch) < 16:
                if any(trace[j:j + size]):
                    t = trace[:j] + [0] * len(trace[j:j + size]) + trace[j + size:]
                    batch.append(t)
                    idx.append(j)
                j += size
            if not batch:
                break
            hit = attempt(batch)
            if hit is not None:
                k, r = hit
                trace = list(r["trace"])
                best.update(trace=list(r["trace"]), message=r["message"], digest=r["digest"])
                changed = True
                i = idx[k] + size
            else:
                i = j
        if size == 1 and not changed:
            break
        size = size // 2 if size > 1 else (1 if changed else 0)
    # strip trailing zeros (exhausted trace == zeros)
    while trace and trace[-1] == 0:
        trace.pop()
    hit = attempt([trace])
    if hit is not None:
        _, r = hit
        best.update(trace=trace, message=r["message"], digest=r["digest"])
    return best
