"""C15: pipeline stages run strictly in order, each exactly once."""
import json
import os

from . import profiles, state
from .kernel import Chooser
from .oracles import core
from .oracles.base import Monitor
from .run import Driver
from .scenario import Gen, gen_scenario, build_job_config


def gen_pipeline(ch, prof):
    g = Gen(ch)
    n_stages = g.rint(1, 4)
    base = None
    stages = []
    for i in range(n_stages):
        mode = g.weighted([("hpc", 3), ("local", 1)]) if prof.get("mixed", True) else "hpc"
        p = dict(prof, mode=mode, max_jobs=4, multi_group=g.flip(0.3), user_cmds=False, p_hooks=0.05,
                 cycles=(mode == "hpc" and g.flip(0.4)))
        sc = gen_scenario(ch, p)
        # unique explicit names across stages
        ren = {}
        for k, j in enumerate(sc["jobs"]):
            ren[j["name"]] = f"s{i + 1}j{k}"
        for j in sc["jobs"]:
            j["name"] = ren[j["name"]]
            j["explicit_name"] = True
            j["int_blockers"] = False
            j["blocked_by"] = [ren[b] for b in j["blocked_by"]]
            j["command"] = f"echo {j['name']}"
        if base is None:
            base = sc
        for gr in sc["groups"]:
            gr["params"]["dry_run"] = False
        stages.append({"jobs": sc["jobs"], "groups": sc["groups"], "hooks": sc.get("hooks", {}), "mode": mode})
    out = {"profile": prof.get("name"), "mode": "hpc", "pipeline": {"stages": stages}, "jobs": [], "groups": [],
           "env": base["env"], "hooks": {}, "user": []}
    out["env"]["p_stall"] = g.pick([0.0, 0.0, 0.002])
    # the user keeps poking the current stage
    for _ in range(g.weighted([(0, 3), (1, 2), (3, 1)])):
        out["user"].append({"at": g.pick([1.0, 10.0, 60.0, 400.0, 3000.0]) * (0.5 + g.rint(0, 10) / 10.0),
                            "cmd": g.pick(["try-submit-jobs", "show-status"]), "stage": "current"})
    # the user resubmits an already completed stage while a later stage is running
    hpc_stages = [i + 1 for i in range(n_stages - 1) if stages[i]["mode"] == "hpc"]
    if hpc_stages and g.flip(0.3):
        k = g.pick(hpc_stages)   # (resubmit-jobs is an HPC-mode command)
        out["user"].append({"resubmit_stage": k, "flags": g.pick([["--successful"], [], ["--successful", "--no-failed"]]),
                            "after_stage_event": g.pick(["sbatch", "job_launch", "job_exit"]),
                            "delay": g.pick([0.0, 0.5, 5.0])})
    # auto-config pipeline (jade pipeline create -a ...): JADE runs the user's script before each stage
    out["pipeline"]["auto"] = {"on": g.flip(0.45), "dur": g.pick([0.0, 0.0, 0.5, 5.0])}
    return out


def materialise_pipeline(sc, w):
    from jade.jobs.pipeline_manager import PipelineManager
    from jade.models import SubmitterParams

    files = []
    for i, st in enumerate(sc["pipeline"]["stages"]):
        path = os.path.join(w.shared_root, f"stage{i + 1}_config.json")
        build_job_config(st, st["jobs"], st["groups"], st.get("hooks", {}), path)
        files.append(path)
    sp = SubmitterParams(**sc["pipeline"]["stages"][0]["groups"][0]["params"])
    if (sc["pipeline"].get("auto") or {}).get("on"):
        # relative config-stage<k>.json names resolve against the (shared) working directory
        os.chdir(w.shared_root)
        PipelineManager.create_config_from_commands([f"simautoconfig {i + 1}" for i in range(len(files))],
                                                    os.path.join(w.shared_root, "pipeline.json"), sp)
        w.probe("pipeline_auto_config")
    else:
        PipelineManager.create_config_from_files(files, os.path.join(w.shared_root, "pipeline.json"), sp)


class PipelineDriver(Driver):
    def __init__(self, w, prof):
        super().__init__(w, prof)
        self.pdir = os.path.join(w.shared_root, "pipeline")
        self.stage_resubmits = []

    def start(self):
        w = self.w
        materialise_pipeline(w.scenario, w)
        w.run_user_cmd(["jade", "pipeline", "submit", os.path.join(w.shared_root, "pipeline.json"), "-o", self.pdir],
                       tag="submit")
        for u in w.scenario.get("user", []):
            if "resubmit_stage" in u:
                self.stage_resubmits.append(dict(u, done=False))
            else:
                self._schedule_current(u)

    def on_record(self, rec):
        super().on_record(rec)
        if not self.stage_resubmits:
            return
        seq, vt, kind, vpid, d = rec
        w = self.w
        for u in self.stage_resubmits:
            if u["done"] or kind != u["after_stage_event"]:
                continue
            k = u["resubmit_stage"]
            nxt = f"pipeline/output-stage{k + 1}"
            path = d.get("output") if kind == "sbatch" else w.rel((d.get("env") or {}).get("JADE_RUNTIME_OUTPUT") or "")
            if kind == "job_exit":
                spec = w.jobspec.get(d.get("name")) or {}
                path = nxt if d.get("name", "").startswith(f"s{k + 1}j") else None
            if path != nxt:
                continue
            u["done"] = True
            sd = os.path.join(self.pdir, f"output-stage{k}")

            def fire(sd=sd, u=u):
                try:
                    cfg = state.read_json(os.path.join(sd, "cluster_config.json"))
                except state.Unparsable:
                    return
                if cfg and cfg.get("is_complete"):
                    w.probe("pipeline_stage_resubmitted")
                    w.run_user_cmd(["jade", "resubmit-jobs", sd] + list(u["flags"]), tag="resubmit_stage")

            w.after(float(u["delay"]), fire, "user")

    def pipeline_state(self):
        try:
            return state.read_json(os.path.join(self.pdir, "pipeline.json"))
        except state.Unparsable:
            return None

    def current_stage_dir(self):
        ps = self.pipeline_state()
        if not ps or ps.get("is_complete"):
            return None
        n = ps.get("stage_num", 1)
        d = os.path.join(self.pdir, f"output-stage{n}")
        if os.path.exists(os.path.join(d, "cluster_config.json")) and os.path.exists(os.path.join(d, "job_status.json")):
            return d
        return None

    def _schedule_current(self, u):
        w = self.w

        def fire():
            d = self.current_stage_dir()
            if d is None:
                return
            argv = ["jade", "try-submit-jobs", d] if u["cmd"] == "try-submit-jobs" else ["jade", "show-status", "-o", d, "-n"]
            w.run_user_cmd(argv, tag="spontaneous")

        w.at(w.t0 + float(u["at"]), fire, "user")

    def quiescent(self):
        w = self.w
        ps = self.pipeline_state()
        if ps is None or ps.get("is_complete"):
            return False
        d = self.current_stage_dir()
        if d is None:
            return False
        try:
            cfg = state.read_json(os.path.join(d, "cluster_config.json"))
        except state.Unparsable:
            return False
        if cfg is None or cfg.get("is_complete"):
            return False
        total = sum(len(s["jobs"]) for s in w.scenario["pipeline"]["stages"]) + 3 * len(w.scenario["pipeline"]["stages"])
        if len(self.recoveries) >= total + 3:
            return False
        vp = w.run_user_cmd(["jade", "try-submit-jobs", d], tag="recovery")
        self.recoveries.append(vp)
        w.probe("recovery_round_needed")
        return True


class C15(Monitor):
    prop = "C15"

    def __init__(self, ctx):
        super().__init__(ctx)
        self.first = {}        # outrel -> {"status": seq, "sbatch": seq, "launch": seq}
        self.pipe = []         # observations of pipeline.json
        self.complete_seen = 0
        self.submit_cmds = {}  # stage number -> count of submissions (Cluster.create) observed
        self.stage_by_node = 0
        self.first_results = {}
        self.autoconfigs = {}

    def _stage_no(self, sub):
        return int(sub.outrel.rsplit("stage", 1)[1])

    def _prev(self, sub):
        k = self._stage_no(sub)
        if k <= 1:
            return None
        return self.ctx.subs.get(f"pipeline/output-stage{k - 1}")

    def _mark(self, sub, what, seq):
        f = self.first.setdefault(sub.outrel, {})
        if what in f:
            return
        f[what] = seq
        prev = self._prev(sub)
        if prev is not None:
            cs = min(prev.complete_seq.values()) if prev.complete_seq else None
            if cs is None or cs > seq:
                self.bad("stage_started_early", "a stage was configured or submitted before the previous stage completed",
                         f"stage {self._stage_no(sub)}: first {what} at seq {seq}; stage {self._stage_no(prev)} "
                         f"complete at {cs}")

    def on_record(self, rec):
        seq, vt, kind, vpid, d = rec
        w = self.w
        if kind == "fs":
            p = d.get("path", "")
            if p == "pipeline/pipeline.json" and d.get("op") == "write":
                self._observe_pipeline(seq, vpid)
                return
            sub = self.ctx.sub_for_path(p)
            if sub is None:
                return
            base = p[len(sub.outrel) + 1:]
            if base in ("cluster_config.json", "job_status.json", "config.json"):
                self._mark(sub, "status", seq)
            if base == "config.json" and d.get("op") in ("create", "truncate"):
                # JobSubmitter.create writes the stage's config.json: one submission of the stage
                n = self._stage_no(sub)
                self.submit_cmds[n] = self.submit_cmds.get(n, 0) + 1
                if self.submit_cmds[n] > 1:
                    self.bad("stage_submitted_twice", "a pipeline stage was submitted more than once",
                             f"stage {n}: cluster state created again at seq {seq}")
                if w.node_job(w.vprocs[vpid]) is not None:
                    w.probe("pipeline_stage_on_node")
        elif kind == "autoconfig":
            self._autoconfig(seq, d)
        elif kind == "sbatch" and d.get("attempt", 1) == 1:
            sub = self.ctx.sub_for_path(d.get("output"))
            if sub is not None:
                self._mark(sub, "sbatch", seq)
        elif kind == "job_launch":
            sub = self.ctx.sub_for_abs((d.get("env") or {}).get("JADE_RUNTIME_OUTPUT"))
            if sub is not None:
                self._mark(sub, "launch", seq)

    def _autoconfig(self, seq, d):
        """JADE invokes the user's configuration script of stage k: the previous stage must be complete,
        and the status file JADE points the script to must record that (docs/source/pipeline.rst:
        'provide information about completed stages and their outputs')."""
        k = d["stage"]
        self.w.probe("pipeline_autoconfig_run")
        self.autoconfigs[k] = self.autoconfigs.get(k, 0) + 1
        if self.autoconfigs[k] > 1:
            self.bad("stage_configured_twice", "a pipeline stage was configured more than once", f"stage {k} at seq {seq}")
        env = d.get("env") or {}
        if (env.get("JADE_PIPELINE_STATUS_FILE") != "pipeline/pipeline.json" or env.get("JADE_PIPELINE_OUTPUT_DIR") != "pipeline"
                or env.get("JADE_PIPELINE_STAGE_ID") != str(k)):
            self.bad("autoconfig_env", "a stage's configuration script was run without the documented pipeline environment",
                     f"stage {k}: {env}")
        if k > 1:
            prev = self.ctx.subs.get(f"pipeline/output-stage{k - 1}")
            cs = min(prev.complete_seq.values()) if prev is not None and prev.complete_seq else None
            if cs is None or cs > seq:
                self.bad("stage_started_early", "a stage was configured or submitted before the previous stage completed",
                         f"stage {k}: configured at seq {seq}; stage {k - 1} complete at {cs}")
        st = d.get("status")
        if st is None:
            self.bad("status_unreadable_at_configure", "the pipeline status file could not be read by a stage's configuration script",
                     f"stage {k} at seq {seq}")
            return
        rcs = st.get("return_codes") or []
        if st.get("stage_num") != k or any(rc is None for rc in rcs[:k - 1]) or any(rc is not None for rc in rcs[k - 1:]):
            self.bad("status_stale_at_configure", "the status file given to a stage's configuration script does not record "
                     "the completed stages", f"stage {k} at seq {seq}: stage_num={st.get('stage_num')} return_codes={rcs}")

    def on_status(self, sub, o):
        if o.get("completed_now") and sub.outrel not in self.first_results:
            try:
                self.first_results[sub.outrel] = state.read_json(os.path.join(sub.out, "results.json")) or {}
            except state.Unparsable:
                self.first_results[sub.outrel] = {}

    def _observe_pipeline(self, seq, vpid):
        w = self.w
        try:
            ps = state.read_json(os.path.join(w.shared_root, "pipeline", "pipeline.json"))
        except state.Unparsable as e:
            self.bad("pipeline_unparsable", "pipeline.json does not parse after a write", f"seq {seq}: {e}")
            return
        if ps is None:
            return
        n_st = len(ps["stages"])
        sn = ps["stage_num"]
        self.pipe.append((seq, sn, ps.get("is_complete"), [s.get("return_code") for s in ps["stages"]]))
        subs = self.ctx.subs
        # stages before stage_num are complete; their return code says whether jobs are missing
        for k in range(1, n_st + 1):
            st = ps["stages"][k - 1]
            sub = subs.get(f"pipeline/output-stage{k}")
            done = sub is not None and bool(sub.complete_seq)
            if k < sn:
                if not done:
                    self.bad("stage_num_ahead", "recorded current stage is ahead of what happened",
                             f"seq {seq}: stage_num={sn} but stage {k} is not complete")
                    continue
                if st.get("return_code") is None:
                    self.bad("return_code_missing", "a finished stage has no recorded return code", f"seq {seq}: stage {k}")
                    continue
                # what happened when the stage completed and reported (a later resubmit-jobs on that
                # stage rewrites results.json; its repeated report is rejected by the pipeline)
                rj = self.first_results.get(sub.outrel)
                if rj is None:
                    continue
                want = 0 if not rj.get("missing_jobs") else 1
                if (st["return_code"] == 0) != (want == 0):
                    self.bad("return_code_wrong", "a stage's recorded return code does not match what happened",
                             f"seq {seq}: stage {k} return_code={st['return_code']} missing_jobs={rj.get('missing_jobs')}")
            else:
                if st.get("return_code") is not None:
                    self.bad("return_code_early", "a return code is recorded for a stage that has not completed",
                             f"seq {seq}: stage {k} return_code={st['return_code']} while stage_num={sn}")
        if ps.get("is_complete"):
            self.complete_seen += 1
            if self.complete_seen > 1:
                self.bad("pipeline_completed_twice", "the pipeline was marked complete more than once", f"seq {seq}")
            last = subs.get(f"pipeline/output-stage{n_st}")
            if last is None or not last.complete_seq:
                self.bad("pipeline_complete_early", "the pipeline was marked complete before its last stage completed",
                         f"seq {seq}")
            if sn != n_st + 1:
                self.bad("stage_num_final", "the recorded current stage is wrong at pipeline completion",
                         f"stage_num={sn} for {n_st} stages")

    def finish(self):
        w = self.w
        if w.cut or any(r[2] == "lock_timeout" for r in w.history):
            return
        try:
            ps = state.read_json(os.path.join(w.shared_root, "pipeline", "pipeline.json"))
        except state.Unparsable as e:
            self.bad("pipeline_unparsable", "pipeline.json does not parse", str(e))
            return
        if ps is None:
            return
        n_st = len(ps["stages"])
        if not ps.get("is_complete"):
            crash = sorted({(v.role, v.crash["type"], v.crash["where"]) for v in w.vprocs if v.crash})
            self.bad("pipeline_not_complete", "a fault-free pipeline did not complete",
                     f"stage_num={ps.get('stage_num')}/{n_st}; crashes={crash}; "
                     f"recoveries={len(getattr(w.driver, 'recoveries', []))}")
            return
        w.probe("pipeline_completed")
        chk = core.C03C04(self.ctx, {"C03"})
        before = len(w.violations)
        for k in range(1, n_st + 1):
            sub = self.ctx.subs.get(f"pipeline/output-stage{k}")
            if sub is None or self.submit_cmds.get(k, 0) != 1:
                self.bad("stage_not_submitted_once", "a pipeline stage was not submitted exactly once",
                         f"stage {k}: {self.submit_cmds.get(k, 0)} submissions")
                continue
            if sub.epoch == 0:  # (results of a resubmitted stage are C13's subject)
                chk.check(sub)
        for v in w.violations[before:]:
            if v["property"] == "C03":
                v["property"] = "C15"
                v["oracle"] = "stage_" + v["oracle"]


def _extra(ctx, props):
    if "C15" not in props:
        return []
    return [C15(ctx), core.C01(ctx, prop="C15", file_level=True)]


profiles.profile("pipeline", mode="hpc", fault_free=True, kind="world", gen=gen_pipeline, extra_monitors=_extra,
                 driver_cls=PipelineDriver, max_steps=80000, no_materialise=True)
profiles.PROFILE_PROPS["pipeline"] = ["C15"]
profiles.CHECKS["C15"] = {"profiles": [("pipeline", 1.0)], "quick": {"runs": 2400}, "thorough": {"runs": 100000}}
profiles.RULES["C15"] = ("pipelines of 1-4 stages (HPC and local stages mixed) built with PipelineManager.create_config_from_files and "
                         "submitted with jade pipeline submit; stage k+1 is started by whichever process completes stage k (usually a "
                         "compute node's try-submit-jobs) through the real jade pipeline submit-next-stage; concurrent user commands on "
                         "the current stage; non-trivial = >= 2 stages and the pipeline completed")
_old = profiles.nontrivial


def _nontrivial(prop, w):
    if prop == "C15":
        return len(w.scenario.get("pipeline", {}).get("stages", [])) >= 2 and w.probes.get("pipeline_completed", 0) >= 1
    return _old(prop, w)


profiles.nontrivial = _nontrivial
