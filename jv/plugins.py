"""Importing this module registers every profile (world and component simulations)."""
from . import profiles  # noqa: F401

for _m in ("comp_results", "comp_cluster", "comp_runcmd", "comp_events", "prof_faults", "prof_cancel", "prof_resubmit",
           "prof_pipeline", "prof_misc"):
    try:
        __import__(f"jv.{_m}")
    except ModuleNotFoundError as e:
        if e.name != f"jv.{_m}":
            raise
