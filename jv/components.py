"""Which components run real code and which are stubs / models (DESIGN.md 2.8), and the
assumptions every evidence file lists (DESIGN.md 13)."""

REAL = [
    "jade/cli/* click commands (submit-jobs, try-submit-jobs, run-jobs, cancel-jobs, resubmit-jobs, show-status, "
    "show-results, show-events, pipeline submit / submit-next-stage) incl. option parsing",
    "JobSubmitter, HpcSubmitter, _BatchJobs, AsyncHpcSubmitter, HpcStatusCollector, HpcManager, SlurmManager, LocalManager",
    "Cluster, ResultsAggregator, JobRunner, JobQueue, AsyncCliCommand, JobConfiguration + generic_command extension",
    "PipelineManager, run_command, Result/ResultsSummary, EventsSummary, loggers.py, ResourceMonitorAggregator, pydantic models",
]

STUBS = [
    "filelock.SoftFileLock -> SimSoftFileLock model (never_break / break_stale behaviours)",
    "SLURM sbatch/squeue/scancel -> SimSlurm (job state machine, ground truth)",
    "bash -> run-script interpreter (srun <run script> -> jade-internal run-jobs line)",
    "user job processes -> SimJobs (FakePopen with seeded duration and exit code); lifecycle hook commands -> recorded stub",
    "git, jade stats, jade db -> canned answers",
    "psutil -> seeded sample sequences",
    "Python global logging configuration -> per-vproc event-file router; general log files dropped",
    "clock, host names, environment, pids, uuid4, directory listing order -> owned by the simulator",
]

ASSUMPTIONS = [
    "shared file system is coherent; O_CREAT|O_EXCL, rename, unlink and one buffered flush <= 8 KiB are atomic w.r.t. other processes and kills",
    "SimSoftFileLock reproduces the observable protocol of filelock's SoftFileLock in the two behaviours; the real library is not executed in the runs (the break_stale model is compared with the installed filelock 3.32.7 step by step by `python -m jv.selftest lockmodel`: drawn marker states x age x acquire/release/replace sequences and two-party hand-over / SIGKILLed-holder cases)",
    "SimSlurm: a failed sbatch creates no job; squeue never omits a live job nor misreports a state; terminal states are listed for a while then purged; scancel / node death kill the whole process tree",
    "a JADE process is atomic between two seam operations (processes share nothing but files)",
    "single-node batches only (SLURM_NODEID=0); no Spark, Singularity, PBS, FakeManager",
    "reference models (RefDag, RefCluster, RefRows), scenario generator and seams are trusted",
    "sampling, not enumeration: a clean result is evidence over the reported runs, schedules and fault sites, not proof",
]
