"""Simulation kernel: Chooser, virtual processes, scheduler, virtual clock, history.

One World = one simulated deployment = one run.  Exactly one thread runs at any
time: either the scheduler (main thread) or one vproc thread that holds the
baton between two yield points.
"""
import _thread
import hashlib
import heapq
import json
import random
import sys
import threading
import traceback

RUNNABLE, SLEEPING, WAIT_CHILD, WAIT_LOCK, EXITED = "RUN", "SLEEP", "WCHILD", "WLOCK", "EXIT"

EPOCH0 = 1_700_000_000.0

# The world currently being simulated in this OS process (None outside runs).
W = None


class SimKilled(BaseException):
    """Raised inside a vproc thread that was killed (SIGKILL semantics)."""


class RunCut(Exception):
    """The run exceeded its step / virtual-time budget (inconclusive)."""


class HarnessError(Exception):
    """A bug in the simulator itself, never a verdict on JADE."""


class Chooser:
    """The only source of nondeterminism.  Generate mode draws from one PRNG and
    records; replay mode returns recorded values (0 when exhausted / out of range).
    Value 0 is always the plain alternative."""

    def __init__(self, seed, trace=None, then_generate=False):
        self.seed = seed
        self.rng = random.Random(seed)
        self.trace_in = list(trace) if trace is not None else None
        self.then_generate = then_generate
        self.pos = 0
        self.trace = []
        self.kinds = None  # set to [] to record decision kinds (debugging)

    @property
    def replaying(self):
        return self.trace_in is not None and (self.pos < len(self.trace_in) or not self.then_generate)

    def choose(self, n, gen=None, kind=""):
        if n <= 1:
            return 0
        if self.trace_in is not None and (self.pos < len(self.trace_in) or not self.then_generate):
            v = self.trace_in[self.pos] if self.pos < len(self.trace_in) else 0
            self.pos += 1
            if not isinstance(v, int) or not 0 <= v < n:
                v = 0
        else:
            if self.trace_in is not None and self.pos == len(self.trace_in):
                # switch to generation with a derived seed for the continuation
                self.rng = random.Random(f"{self.seed}/cont/{len(self.trace_in)}")
                self.pos += 1
            v = gen(self.rng) if gen is not None else self.rng.randrange(n)
        self.trace.append(v)
        if self.kinds is not None:
            self.kinds.append((kind, n))
        return v

    def flip(self, p, kind=""):
        """True with probability p in generate mode; recorded as 1."""
        return self.choose(2, lambda r: 1 if r.random() < p else 0, kind) == 1

    def delay(self, lo, hi, kind="", steps=64, log=False):
        """A duration in [lo, hi]; value 0 -> lo (shortest)."""
        if hi <= lo:
            return lo
        k = self.choose(steps + 1, None, kind)
        if log and lo > 0:
            return lo * (hi / lo) ** (k / steps)
        return lo + (hi - lo) * k / steps

    def pick(self, seq, kind=""):
        return seq[self.choose(len(seq), None, kind)]

    def permute(self, items, mode, kind="perm"):
        """mode: 0 sorted, 1 reversed, 2 shuffled (Chooser-driven)."""
        items = sorted(items)
        if mode == 1:
            items.reverse()
        elif mode == 2:
            out = []
            pool = items
            while pool:
                i = self.choose(len(pool), None, kind)
                out.append(pool.pop(i))
            items = out
        return items


class VProc:
    __slots__ = (
        "id", "pid", "host", "env", "parent", "role", "argv", "state", "wake", "lock", "thread",
        "exit_code", "out", "err", "event_log", "killed", "children", "slurm_id", "target",
        "crash", "wait_lock_path", "tags", "kill_reason", "n_yields", "cwd", "kind_ord",
    )

    def __init__(self, vid, pid, host, env, parent, role, argv, target):
        self.id = vid
        self.pid = pid
        self.host = host
        self.env = env
        self.parent = parent
        self.role = role
        self.argv = argv
        self.target = target
        self.state = RUNNABLE
        self.wake = 0.0
        self.lock = _thread.allocate_lock()
        self.lock.acquire()
        self.thread = None
        self.exit_code = None
        self.out = []
        self.err = []
        self.event_log = None
        self.killed = False
        self.children = []
        self.slurm_id = None
        self.crash = None
        self.wait_lock_path = None
        self.tags = {}
        self.kill_reason = None
        self.n_yields = 0
        self.cwd = None
        self.kind_ord = 0

    @property
    def alive(self):
        return self.state != EXITED

    def stdout_text(self):
        return "".join(self.out)

    def stderr_text(self):
        return "".join(self.err)

    def __repr__(self):
        return f"<vp{self.id} {self.role} pid={self.pid} host={self.host} {self.state}>"


class World:
    """Kernel part of a simulated deployment.  Subclassed/extended by jv.world."""

    def __init__(self, chooser, max_steps=30000, max_vtime=14 * 86400.0, stick=0.8):
        self.ch = chooser
        self.now = EPOCH0
        self.t0 = EPOCH0
        self.max_steps = max_steps
        self.max_vtime = max_vtime
        self.stick = stick
        self.steps = 0
        self.vprocs = []
        self.live = []
        self.cur = None
        self.last = None
        self.observer = 0
        self.main_lock = _thread.allocate_lock()
        self.main_lock.acquire()
        self.timers = []
        self._tseq = 0
        self._next_pid = 4000
        self.history = []
        self.seq = 0
        self.monitors = []
        self.violations = []
        self.probes = {}
        self.faults_fired = {}
        self.cut = None
        self.quiescent_hook = None
        self.yield_hook = None  # fault injection at yield points
        self.host_skew = {}
        self.pids = {}
        self.finished = False
        self.debug = False
        self.pending_kills = []
        self.harness_errors = []
        self.stop_flag = False

    # ---------------------------------------------------------------- history
    def emit(self, kind, vp=None, **data):
        self.seq += 1
        rec = (self.seq, round(self.now - self.t0, 6), kind, vp.id if vp is not None else -1, data)
        self.history.append(rec)
        if self.debug:
            print("H", rec, file=sys.__stderr__)
        if self.monitors:
            self.observer += 1
            try:
                for m in self.monitors:
                    m.on_record(rec)
            finally:
                self.observer -= 1
        return rec

    def probe(self, name, n=1):
        self.probes[name] = self.probes.get(name, 0) + n

    def fault_fired(self, kind):
        self.faults_fired[kind] = self.faults_fired.get(kind, 0) + 1

    def violation(self, prop, oracle, key, message):
        self.violations.append({
            "property": prop, "oracle": oracle, "key": key, "message": message,
            "seq": self.seq, "vtime": round(self.now - self.t0, 6),
        })

    def canon_history(self):
        root = getattr(self, "root", None)
        out = []
        for rec in self.history:
            s = json.dumps(rec, sort_keys=True, default=_canon)
            if root:
                s = s.replace(root, "<ROOT>")
            out.append(s)
        return out

    def digest(self):
        h = hashlib.sha256()
        for s in self.canon_history():
            h.update(s.encode())
            h.update(b"\n")
        return h.hexdigest()

    # ---------------------------------------------------------------- timers
    def at(self, t, fn, tag=""):
        self._tseq += 1
        heapq.heappush(self.timers, (t, self._tseq, fn, tag))

    def after(self, d, fn, tag=""):
        self.at(self.now + d, fn, tag)

    # ---------------------------------------------------------------- vprocs
    def spawn(self, role, target, host, env, parent=None, argv=None, slurm_id=None):
        vid = len(self.vprocs)
        self._next_pid += 1 + (vid * 7) % 5
        vp = VProc(vid, self._next_pid, host, env, parent, role, argv or [], target)
        vp.slurm_id = slurm_id if slurm_id is not None else (parent.slurm_id if parent else None)
        vp.kind_ord = sum(1 for x in self.vprocs if x.role == role)
        self.vprocs.append(vp)
        self.live.append(vp)
        self.pids[(host, vp.pid)] = vp
        if parent is not None:
            parent.children.append(vp)
        t = threading.Thread(target=self._thread_main, args=(vp,), name=f"vp{vid}", daemon=True)
        vp.thread = t
        t.start()
        self.emit("spawn", vp, role=role, host=host, pid=vp.pid, parent=parent.id if parent else -1,
                  argv=list(vp.argv))
        return vp

    def _thread_main(self, vp):
        vp.lock.acquire()
        rc = None
        try:
            if vp.killed:
                raise SimKilled()
            rc = vp.target(vp)
            if rc is None:
                rc = 0
        except SystemExit as e:
            c = e.code
            rc = 0 if c is None else (c if isinstance(c, int) else 1)
        except SimKilled:
            rc = -9
        except RunCut:
            rc = -8
        except BaseException as e:  # noqa: BLE001 - a crashing simulated process
            rc = 1
            tb = traceback.extract_tb(e.__traceback__)
            where = ""
            for fr in reversed(tb):
                if "/jade/" in fr.filename:
                    where = f"{fr.filename.split('/jade/', 1)[1]}:{fr.name}"
                    break
            if vp.killed:
                rc = -9
            else:
                vp.crash = {"type": type(e).__name__, "where": where, "msg": str(e)[:300]}
                if self.debug:
                    traceback.print_exc(file=sys.__stderr__)
                if isinstance(e, HarnessError) or where == "":
                    # exception that never touched jade code: harness problem
                    vp.crash["harness"] = "".join(traceback.format_exception(e))[-3000:]
        finally:
            # from here on this thread runs harness code, not the simulated process
            self.cur = None
            try:
                self._on_exit(vp, rc)
            except BaseException as e:  # noqa: BLE001
                self.harness_errors.append("".join(traceback.format_exception(e))[-3000:])
            finally:
                self.main_lock.release()

    def _on_exit(self, vp, rc):
        vp.state = EXITED
        vp.exit_code = rc
        if vp in self.live:
            self.live.remove(vp)
        self.observer = 0
        if vp.crash and not vp.killed:
            self.emit("crash", vp, **{k: v for k, v in vp.crash.items() if k != "harness"})
        self.emit("exit", vp, rc=rc, role=vp.role)
        p = vp.parent
        if p is not None and p.state == WAIT_CHILD and p.tags.get("wait_child") is vp:
            p.state = RUNNABLE
        self.on_vproc_exit(vp)

    def on_vproc_exit(self, vp):  # overridden
        pass

    def request_kill(self, vp, reason="kill", tree=True):
        """Ask the scheduler to kill vp (SIGKILL) before anything else runs.  Usable from
        any thread holding the baton; the kill itself happens on the scheduler thread."""
        self.pending_kills.append((vp, reason, tree))

    def kill(self, vp, reason="kill", tree=True):
        """SIGKILL: vp (and its process tree) never performs another effect.
        Scheduler thread only."""
        assert self.cur is None, "kill() must run on the scheduler thread"
        victims = []

        def collect(x):
            if x.alive and not x.killed:
                victims.append(x)
            if tree:
                for c in x.children:
                    collect(c)

        collect(vp)
        for x in victims:
            x.killed = True
            x.kill_reason = reason
            self.emit("kill", x, reason=reason, role=x.role)
        # Unwind each victim now: it raises SimKilled at its parked yield point, every
        # seam re-raises, the thread ends and hands the baton back.
        for x in victims:
            self._unwind(x)

    def _unwind(self, vp):
        if vp.state == EXITED:
            return
        prev = self.cur
        self.cur = vp
        vp.lock.release()
        self.main_lock.acquire()
        self.cur = prev

    # ---------------------------------------------------------------- yielding
    def yield_point(self, vp, kind, detail=None):
        """Called on vp's own thread at every seam operation that other processes
        can observe or that a kill can separate."""
        if vp.killed:
            raise SimKilled()
        vp.n_yields += 1
        if self.yield_hook is not None:
            self.yield_hook(vp, kind, detail)
            if vp.killed:
                raise SimKilled()
        self._park(vp)

    def _park(self, vp):
        self.main_lock.release()
        vp.lock.acquire()
        if vp.killed:
            raise SimKilled()

    def sleep(self, vp, seconds):
        if vp.killed:
            raise SimKilled()
        vp.state = SLEEPING
        vp.wake = self.now + max(0.0, float(seconds))
        self._park(vp)

    def wait_child(self, vp, child):
        if child.state == EXITED:
            return
        vp.state = WAIT_CHILD
        vp.tags["wait_child"] = child
        self._park(vp)
        vp.tags.pop("wait_child", None)

    def wait_lock(self, vp, path, until):
        vp.state = WAIT_LOCK
        vp.wake = until
        vp.wait_lock_path = path
        self._park(vp)
        vp.wait_lock_path = None

    def wake_lock_waiters(self, path=None):
        for x in self.live:
            if x.state == WAIT_LOCK and (path is None or x.wait_lock_path == path):
                x.wake = self.now

    # ---------------------------------------------------------------- scheduler
    def _runnable(self):
        now = self.now
        out = []
        for vp in self.live:
            s = vp.state
            if s == RUNNABLE:
                out.append(vp)
            elif (s == SLEEPING or s == WAIT_LOCK) and vp.wake <= now:
                out.append(vp)
        return out

    def _pick(self):
        while True:
            if self.pending_kills:
                v, reason, tree = self.pending_kills.pop(0)
                self.kill(v, reason, tree)
                continue
            if self.timers and self.timers[0][0] <= self.now:
                _, _, fn, _tag = heapq.heappop(self.timers)
                fn()
                continue
            run = self._runnable()
            if run:
                if len(run) == 1:
                    return run[0]
                last = self.last
                if last in run:
                    run.remove(last)
                    run.insert(0, last)
                stick = self.stick
                n = len(run)
                i = self.ch.choose(n, lambda r: 0 if r.random() < stick else r.randrange(n), "sched")
                return run[i]
            t = None
            if self.timers:
                t = self.timers[0][0]
            for vp in self.live:
                if vp.state == SLEEPING or vp.state == WAIT_LOCK:
                    if t is None or vp.wake < t:
                        t = vp.wake
            if t is None:
                if self.live:
                    # only WAIT_CHILD with no runnable child: impossible unless harness bug
                    raise HarnessError(f"deadlock: {self.live}")
                if self.quiescent_hook is not None and self.quiescent_hook():
                    continue
                return None
            if t > self.now:
                self.now = t
                if self.now - self.t0 > self.max_vtime:
                    self.cut = "max_vtime"
                    return None

    def run(self):
        """Scheduler loop (main thread)."""
        global W
        assert W is self
        try:
            while True:
                vp = self._pick()
                if vp is None or self.stop_flag:
                    break
                self.steps += 1
                if self.steps > self.max_steps:
                    self.cut = "max_steps"
                    break
                vp.state = RUNNABLE
                self.last = vp
                self.cur = vp
                vp.lock.release()
                self.main_lock.acquire()
                self.cur = None
        finally:
            self.finished = True
            self._reap()

    def _reap(self):
        """End every remaining vproc thread (cut runs, end of run)."""
        for vp in list(self.live):
            if vp.alive:
                vp.killed = True
                vp.kill_reason = "reap"
        for vp in list(self.live):
            self._unwind(vp)


def _canon(o):
    if isinstance(o, (set, frozenset)):
        return sorted(o)
    if isinstance(o, bytes):
        return o.decode("utf-8", "replace")
    return str(o)
