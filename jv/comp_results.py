"""C08 component simulation: ResultsAggregator under concurrent appenders and collectors.

vprocs call the public ResultsAggregator API directly; interleaving is at lock-operation
and file-operation granularity.  Oracle: RefRows (multiset of acknowledged appends)."""
import collections
import copy
import os
import shutil

from . import kernel, profiles, state
from .kernel import Chooser
from .scenario import Gen


def gen(ch, prof):
    g = Gen(ch)
    n_app = g.rint(1, 6)
    n_batches = g.rint(1, max(1, min(4, n_app)))
    apps = []
    for i in range(n_app):
        b = g.rint(1, n_batches)
        rows = []
        for k in range(g.rint(1, 4)):
            rows.append({"name": f"j{i}_{k}", "rc": g.pick([0, 0, 1, 255]), "status": g.pick(["finished", "finished", "canceled"]),
                         "exec": round(1.0 + i * 10 + k + g.rint(0, 9) / 16.0, 4),
                         "gap": g.pick([0.0, 0.0, 0.5, 3.0])})
        apps.append({"batch": b, "rows": rows, "start": g.pick([0.0, 0.0, 0.2, 1.0, 4.0])})
    cols = []
    for c in range(g.rint(1, 4)):
        cols.append({"calls": g.rint(1, 4), "start": g.pick([0.0, 0.1, 0.7, 2.0, 5.0]), "gap": g.pick([0.0, 0.3, 2.0]),
                     "direct": g.rint(0, 2)})
    env = {"lock_behaviour": g.pick(["break_stale", "never_break"]), "list_mode": g.pick([0, 1, 2]),
           "stick": g.pick([0.3, 0.5, 0.7, 0.9]), "p_stall": g.pick([0.0, 0.0, 0.01]), "stall_max": 5.0}
    return {"kind": "comp_results", "appenders": apps, "collectors": cols, "env": env, "jobs": [], "groups": []}


def key_of(row):
    return (row["name"], int(row["return_code"]), row["status"], float(row["exec_time_s"]),
            None if row["hpc_job_id"] in (None, "None") else str(row["hpc_job_id"]))


class Mon:
    """RefRows oracle."""

    def __init__(self, w, out):
        self.w = w
        self.out = out
        self.attempted = collections.Counter()
        self.acked = collections.Counter()
        self.collected = collections.Counter()
        self.collected_by = {}
        self.direct_acked = collections.Counter()
        self.overlap = 0
        self.holders = {}

    def bad(self, oracle, key, msg):
        self.w.violation("C08", oracle, key, msg)

    def on_record(self, rec):
        seq, vt, kind, vpid, d = rec
        if kind == "c08_attempt":
            self.attempted[tuple(d["key"])] += 1
        elif kind == "c08_ack":
            (self.direct_acked if d.get("direct") else self.acked)[tuple(d["key"])] += 1
        elif kind == "c08_collected":
            for k in d["keys"]:
                k = tuple(k)
                self.collected[k] += 1
                if self.collected[k] > 1:
                    self.bad("reported_twice", "a result was reported as newly completed to two collection rounds",
                             f"{k} first by call {self.collected_by.get(k)} again by vp{vpid} call {d['call']}")
                self.collected_by.setdefault(k, (vpid, d["call"]))
                if k not in self.attempted:
                    self.bad("fabricated", "collector returned a row nobody appended", f"{k}")
        elif kind == "lock_acquire":
            self.holders[d["path"]] = vpid
            if d["path"].endswith("results_batch") or "results_batch_" in d["path"]:
                if any(p.endswith("processed_results.csv.lock") for p in self.holders):
                    self.overlap += 1
        elif kind == "lock_release":
            self.holders.pop(d["path"], None)
            if d["path"].endswith("processed_results.csv.lock"):
                self.check_consolidated(seq)
            if not self.holders:
                self.check_places(seq)

    def check_consolidated(self, seq):
        p = os.path.join(self.out, "processed_results.csv")
        try:
            rows = state.read_rows(p)
        except state.Unparsable as e:
            self.bad("consolidated_unparsable", "the consolidated results file does not parse", f"seq {seq}: {e}")
            return
        if rows is None:
            self.bad("consolidated_absent", "the consolidated results file disappeared", f"seq {seq}")
            return
        have = collections.Counter(key_of(r) for r in rows)
        allowed = self.attempted
        for k, n in have.items():
            if n > 1:
                self.bad("duplicate_row", "a result row is duplicated in the consolidated results", f"seq {seq}: {k} x{n}")
            if k not in allowed:
                self.bad("corrupt_row", "consolidated results hold a row that was never appended (truncated or cross-attributed)",
                         f"seq {seq}: {k}")

    def check_places(self, seq):
        """All locks free: every acknowledged row is on disk exactly once."""
        try:
            rows = state.all_rows(self.out)
        except state.Unparsable as e:
            self.bad("file_unparsable", "a results file does not parse while no lock is held", f"seq {seq}: {e}")
            return
        have = collections.Counter(key_of(r) for _, r in rows)
        want = self.acked + self.direct_acked
        for k, n in want.items():
            if have.get(k, 0) == 0:
                self.bad("row_lost", "an acknowledged result row is in no results file", f"seq {seq}: {k}")
            elif have[k] > 1:
                self.bad("row_duplicated", "an acknowledged result row is in two places", f"seq {seq}: {k} x{have[k]}")
        for k, n in have.items():
            if k not in self.attempted:
                self.bad("corrupt_row", "a results file holds a row that was never appended (truncated or cross-attributed)",
                         f"seq {seq}: {k}")

    def finish(self):
        # final state: one more collection has been done by the driver
        self.check_places(self.w.seq)
        self.check_consolidated(self.w.seq)
        for k, n in self.acked.items():
            if self.collected.get(k, 0) != 1:
                self.bad("not_reported_once", "an acknowledged result was not reported as newly completed exactly once",
                         f"{k}: reported {self.collected.get(k, 0)} times")
        try:
            rows = state.read_rows(os.path.join(self.out, "processed_results.csv")) or []
        except state.Unparsable:
            return
        have = collections.Counter(key_of(r) for r in rows)
        want = self.acked + self.direct_acked
        if have != want:
            lost = want - have
            extra = have - want
            self.bad("final_mismatch", "final consolidated results differ from the acknowledged appends",
                     f"lost={list(lost.items())[:3]} extra={list(extra.items())[:3]}")
        left = state.node_result_files(self.out)
        for p in left:
            try:
                r = state.read_rows(p)
            except state.Unparsable as e:
                self.bad("file_unparsable", "a results file does not parse while no lock is held", f"final: {e}")
                continue
            if r:
                self.bad("left_behind", "rows left in a node file after the final collection", f"{p}: {len(r)}")


def runner(scenario, prof, seed, trace=None, then_generate=False, props=()):
    from . import run
    from .world import SimWorld

    run.prepare_process()
    from jade.jobs.results_aggregator import ResultsAggregator
    from jade.result import Result

    run._RUN_N += 1
    root = os.path.join(run.scratch_base(), f"r{run._RUN_N % 1000000:06d}")
    shutil.rmtree(root, ignore_errors=True)
    os.makedirs(root)
    ch = Chooser(f"run/{seed}", trace=trace, then_generate=then_generate)
    w = SimWorld(scenario, ch, root, props=props, max_steps=20000)
    out = w.output
    os.makedirs(os.path.join(out, "results"))
    try:
        ResultsAggregator.create(out)
        mon = Mon(w, out)
        w.monitors = [mon]
        kernel.W = w
        pending = {"n": 0}

        def mk_row(host, r):
            return Result(r["name"], r["rc"], r["status"], r["exec"], completion_time=1700000000.0 + r["exec"],
                          hpc_job_id=host[4:] or None)

        def appender(spec, idx):
            def target(vp):
                if spec["start"]:
                    w.sleep(vp, spec["start"])
                for r in spec["rows"]:
                    res = mk_row(vp.host, r)
                    k = [res.name, res.return_code, res.status, float(res.exec_time_s),
                         None if res.hpc_job_id is None else str(res.hpc_job_id)]
                    w.emit("c08_attempt", vp, key=k)
                    ResultsAggregator.append(out, res, batch_id=spec["batch"])
                    w.emit("c08_ack", vp, key=k)
                    if r["gap"]:
                        w.sleep(vp, r["gap"])
                return 0

            return target

        def collector(spec, idx):
            def target(vp):
                if spec["start"]:
                    w.sleep(vp, spec["start"])
                direct = spec["direct"]
                for c in range(spec["calls"]):
                    agg = ResultsAggregator.load(out)
                    got = agg.process_results()
                    w.emit("c08_collected", vp, call=c, keys=[
                        [x.name, x.return_code, x.status, float(x.exec_time_s),
                         None if x.hpc_job_id is None else str(x.hpc_job_id)] for x in got])
                    if direct > 0:
                        direct -= 1
                        res = Result(f"c{idx}_{c}", 1, "canceled", 0, completion_time=1700000001.0 + idx, hpc_job_id=None)
                        k = [res.name, 1, "canceled", 0.0, None]
                        w.emit("c08_attempt", vp, key=k)
                        agg.append_result(res)
                        w.emit("c08_ack", vp, key=k, direct=True)
                    if spec["gap"]:
                        w.sleep(vp, spec["gap"])
                return 0

            return target

        for i, a in enumerate(scenario["appenders"]):
            w.spawn("appender", appender(a, i), f"node{100 + i}", w.base_env(f"node{100 + i}"))
        for i, c in enumerate(scenario["collectors"]):
            w.spawn("collector", collector(c, i), "login1" if i == 0 else f"node{200 + i}", w.base_env("login1"))
        final = {"done": False}

        def quiescent():
            if final["done"]:
                return False
            final["done"] = True
            w.spawn("collector", collector({"calls": 1, "start": 0, "gap": 0, "direct": 0}, 99), "login1",
                    w.base_env("login1"))
            return True

        w.quiescent_hook = quiescent
        try:
            w.run()
            w.observer += 1
            try:
                if not w.cut:
                    mon.finish()
            finally:
                w.observer -= 1
        finally:
            kernel.W = None
        w.probes["collector_raced_appender"] = mon.overlap
        w.extra_result = {"counts": {"acked_rows": sum(mon.acked.values()), "collector_calls": sum(
            c["calls"] for c in scenario["collectors"]) + 1}}
    finally:
        shutil.rmtree(root, ignore_errors=True)
    return w


def candidates(sc):
    out = []
    for key in ("appenders", "collectors"):
        if len(sc[key]) > 1:
            for i in range(len(sc[key])):
                c = copy.deepcopy(sc)
                del c[key][i]
                out.append((f"drop {key}[{i}]", c))
    for i, a in enumerate(sc["appenders"]):
        if len(a["rows"]) > 1:
            for k in range(len(a["rows"])):
                c = copy.deepcopy(sc)
                del c["appenders"][i]["rows"][k]
                out.append((f"drop row {i}.{k}", c))
        if a["start"]:
            c = copy.deepcopy(sc)
            c["appenders"][i]["start"] = 0.0
            out.append((f"start0 app {i}", c))
    for i, col in enumerate(sc["collectors"]):
        for f, v in (("calls", 1), ("direct", 0), ("start", 0.0), ("gap", 0.0)):
            if col[f] != v:
                c = copy.deepcopy(sc)
                c["collectors"][i][f] = v
                out.append((f"col{i} {f}", c))
    for k, v in (("list_mode", 0), ("p_stall", 0.0)):
        if sc["env"].get(k) != v:
            c = copy.deepcopy(sc)
            c["env"][k] = v
            out.append((f"env {k}", c))
    return out


profiles.profile("comp_results", kind="component", gen=gen, runner=runner, shrink_candidates=candidates, fault_free=True)
profiles.CHECKS["C08"] = {"profiles": [("comp_results", 0.8), ("clean_hpc", 0.2)], "quick": {"runs": 6000},
                          "thorough": {"runs": 400000}}
profiles.PROFILE_PROPS["comp_results"] = ["C08"]
profiles.RULES["C08"] = ("component simulation: 1-6 appenders (several per batch id) x 1-4 collectors calling the public "
                         "ResultsAggregator API, interleaved at lock- and file-operation granularity, plus world runs; "
                         "non-trivial = a collector call overlapped an appender (collector held the consolidated lock while "
                         "taking a node-file lock) or, in world runs, >= 2 collections; distinct = distinct history digest")
_old_nontrivial = profiles.nontrivial


def _nontrivial(prop, w):
    if prop == "C08":
        if w.scenario.get("kind") == "comp_results":
            return w.probes.get("collector_raced_appender", 0) >= 1
        return w.probes.get("collections", 0) >= 2
    return _old_nontrivial(prop, w)


profiles.nontrivial = _nontrivial
