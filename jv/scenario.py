"""Scenario generation (swarm style) and materialisation as JADE config files.

A scenario is plain JSON.  It is generated from a Chooser seeded with the run seed
(separately from the run-time Chooser), stored verbatim in replay files, and can be
edited by the shrinker.
"""
import copy
import json
import os

RESERVED_ARGV0 = {"sbatch", "squeue", "scancel", "jade", "jade-internal", "simhook", "git"}

NAME_ALPHABET = ["a", "b", "job", "J", "x1", "run-2", "n.3", "k_4", "Z9", "m-m", "q.q", "w_w"]

CMD_TEMPLATES = [
    "echo {n}",
    "run {n}",
    "python script.py --opt={n}",
    "bash -c 'echo {n} && exit 0'",
    'prog "two words" {n}',
    "prog --flag='a b' \"c d\" e\\ f {n}",
    "prog\t--tab\t{n}",
    "prog --k=v=w -- {n}",
    "prog 'it'\"'\"'s' {n}",
    "prog éè 中 {n}",
    "prog \"\" '' {n}",
    "prog a\\\"b {n}",
    "./rel/path.sh {n} > /dev/null",
    "prog $HOME ~ * ? {n}",
    "  prog   spaced    {n}  ",
    "prog --label=run#3 {n}",
    "prog http://host/page#frag {n} #42 tail",
    "sed s#a#b# {n}",
    "prog '#quoted' \"#dq\" {n}",
    "prog a;b a|b a&b (x) <in {n}",
    "prog --json={\\\"k\\\":1} {n}",
    "prog \\\\ end\\ {n}",
    "prog !bang %pct ^caret @at +plus {n}",
    "prog\nnewline {n}",
    "prog \"two  spaces   kept\" {n}",
    "prog 'tab\there' \"nl\nhere\" {n}",
    "prog --msg=' lead and trail ' {n}",
]


def _command(g, prof, quoting, name):
    cmd = (g.pick(CMD_TEMPLATES) if quoting else "echo {n}").replace("{n}", name)
    if prof.get("real_probe"):
        import os

        probe = os.path.join(os.path.dirname(os.path.abspath(__file__)), "probe.sh")
        # replace the program (first shell word) by the probe script, keep the arguments
        rest = cmd.strip().split(None, 1)
        cmd = probe + (" " + rest[1] if len(rest) > 1 else "")
    return cmd


def _walltime_str(minutes):
    h, m = divmod(int(minutes), 60)
    return f"{h}:{m:02d}:00"


class Gen:
    """Draw helpers on a Chooser."""

    def __init__(self, ch):
        self.ch = ch

    def flip(self, p):
        return self.ch.flip(p, "g")

    def rint(self, lo, hi):
        if hi <= lo:
            return lo
        return lo + self.ch.choose(hi - lo + 1, None, "g")

    def pick(self, seq):
        return self.ch.pick(list(seq), "g")

    def weighted(self, pairs):
        tot = sum(w for _, w in pairs)

        def gen(r):
            x = r.random() * tot
            acc = 0.0
            for i, (_, w) in enumerate(pairs):
                acc += w
                if x < acc:
                    return i
            return len(pairs) - 1

        return pairs[self.ch.choose(len(pairs), gen, "g")][0]


def gen_dag(g, n, p_edge, listing_independent=True):
    """Random DAG on n jobs.  Returns blocked_by as list of lists of indices.  The
    topological order is a random permutation, so listing order is independent of
    dependency order."""
    order = list(range(n))
    if listing_independent and n > 1 and g.flip(0.7):
        perm = []
        pool = order[:]
        while pool:
            perm.append(pool.pop(g.rint(0, len(pool) - 1)))
        order = perm
    pos = {j: i for i, j in enumerate(order)}
    blocked = [[] for _ in range(n)]
    shape = g.weighted([("random", 5), ("chain", 2), ("fan_in", 1), ("fan_out", 1), ("none", 1)])
    if shape == "none":
        return blocked
    for j in range(n):
        for b in range(n):
            if pos[b] < pos[j]:
                if shape == "chain":
                    if pos[b] == pos[j] - 1 and g.flip(0.85):
                        blocked[j].append(b)
                elif shape == "fan_in":
                    if pos[j] == n - 1 and g.flip(0.8):
                        blocked[j].append(b)
                elif shape == "fan_out":
                    if pos[b] == 0 and g.flip(0.8):
                        blocked[j].append(b)
                elif g.flip(p_edge):
                    blocked[j].append(b)
    return blocked


def gen_slurm_config(g, walltime_min, full=False):
    cfg = {"account": g.pick(["acct", "proj-1", "a.b"]), "walltime": _walltime_str(walltime_min)}
    p = 0.5 if full else 0.15
    if g.flip(p):
        cfg["partition"] = g.pick(["short", "debug", "gpu-h100"])
    if g.flip(p):
        cfg["qos"] = g.pick(["high", "normal"])
    if g.flip(p):
        cfg["reservation"] = "resv1"
    if g.flip(p):
        cfg["gres"] = g.pick(["gpu:1", "gpu:2"])
    if g.flip(p):
        cfg["mem"] = g.pick(["730G", "80000"])
    if g.flip(p):
        cfg["tmp"] = g.pick(["500G", "1T"])
    if g.flip(p):
        cfg["nodes"] = 1
    if g.flip(p):
        cfg["ntasks"] = g.rint(1, 4)
    if g.flip(p):
        cfg["ntasks_per_node"] = g.rint(1, 4)
    return cfg


def gen_env(g, prof):
    env = {}
    env["lock_behaviour"] = g.pick(prof.get("lock_behaviours", ["break_stale", "never_break"]))
    env["list_mode"] = g.weighted([(0, 2), (1, 1), (2, 2)])
    env["stick"] = g.pick([0.5, 0.7, 0.85, 0.93, 0.97])
    env["queue_wait"] = g.weighted([("immediate", 2), ("short", 4), ("long", 1), ("mixed", 2)])
    env["terminal_listed_s"] = g.weighted([(0.0, 4), (30.0, 1), (400.0, 1)])
    env["min_job_age"] = g.pick([30.0, 300.0])
    env["squeue_pad"] = g.pick([20, 20, 12, 1, 40])
    if g.flip(0.4):
        env["lat"] = {"sbatch": g.pick([0.0, 0.5, 5.0]), "squeue": g.pick([0.0, 0.3, 3.0]),
                      "scancel": g.pick([0.0, 0.2])}
    env["skew"] = g.weighted([(0.0, 3), (2.0, 1), (120.0, 1)])
    env["host_pool"] = g.weighted([(0, 2), (1, 1)])
    env["foreign_jobs"] = g.weighted([(0, 2), (2, 1), (5, 1)])
    env["cpus_on_node"] = g.rint(1, 4)
    env["cpu_count"] = g.rint(1, 4)
    env["p_stall"] = g.weighted([(0.0, 3), (0.002, 2), (0.01, 1)]) if prof.get("stalls", True) else 0.0
    env["stall_max"] = g.pick([30.0, 600.0, 7200.0])
    env["p_preempt"] = g.weighted([(0.0, 4), (0.03, 2), (0.1, 2), (0.3, 1)])
    env["preempt_max"] = g.pick([0.05, 1.0, 10.0])
    env["p_configuring"] = g.pick([0.0, 0.2, 0.6])
    env["p_exotic_state"] = g.weighted([(0.0, 3), (0.1, 1), (0.5, 1)])
    env["first_job_id"] = g.pick([8100000, 17, 99999990])
    env["op_lat"] = g.weighted([(0.0, 6), (0.02, 1), (0.5, 1), (4.0, 1)])
    return env


def gen_scenario(ch, prof):
    """prof: dict of profile options (see jv.profiles)."""
    g = Gen(ch)
    sc = {"profile": prof.get("name", "?"), "mode": prof.get("mode", "hpc")}
    if prof.get("real_probe"):
        sc["real_probe"] = True
    max_jobs = prof.get("max_jobs", 12)
    if g.flip(0.5):
        n = g.rint(1, min(4, max_jobs))
    else:
        n = g.rint(1, max_jobs)
    n = max(n, prof.get("min_jobs", 1))
    explicit_names = g.flip(0.5)
    names = []
    for i in range(n):
        if explicit_names:
            base = g.pick(NAME_ALPHABET)
            nm = f"{base}{i}" if g.flip(0.8) else f"{i}{base}"
        else:
            nm = str(i + 1)  # auto name = job_id
        names.append(nm)
    p_edge = g.pick([0.0, 0.15, 0.3, 0.5, 0.8]) if prof.get("deps", True) else 0.0
    blocked = gen_dag(g, n, p_edge)
    if prof.get("cycles") and n >= 2 and g.flip(0.5):
        a = g.rint(0, n - 1)
        b = g.rint(0, n - 1)
        if a != b:
            if b not in blocked[a]:
                blocked[a].append(b)
            if a not in blocked[b]:
                blocked[b].append(a)
            sc["has_cycle"] = True
    # groups
    ngroups = g.weighted([(1, 5), (2, 2), (3, 1)]) if prof.get("multi_group", True) else 1
    ngroups = min(ngroups, n)
    mode = sc["mode"]
    max_nodes = g.weighted([(None, 2), (1, 2), (2, 2), (3, 1), (4, 1)])
    poll = g.pick([1, 5, 10, 30, 60])
    dist_sub = prof.get("distributed_submitter")
    rmi = g.pick([1, 5, 10])
    p_fail = prof.get("p_fail", 0.35)
    groups = []
    for gi in range(ngroups):
        tbb = g.flip(0.3) if prof.get("time_based", True) else False
        nproc = g.weighted([(None, 2), (1, 2), (2, 2), (3, 1), (4, 1)])
        if tbb and nproc is None:
            nproc = g.rint(1, 3)
        wall_min = g.pick([5, 30, 60, 240]) if tbb else 240
        params = {
            "per_node_batch_size": 0 if tbb else g.rint(1, n + 2),
            "time_based_batching": tbb,
            "try_add_blocked_jobs": g.flip(0.6),
            "num_parallel_processes_per_node": nproc,
            "max_nodes": max_nodes,
            "poll_interval": poll,
            "generate_reports": g.flip(prof.get("p_reports", 0.2)),
            "resource_monitor_type": "aggregation" if g.flip(prof.get("p_monitor", 0.15)) else "none",
            "resource_monitor_interval": rmi,
            "verbose": g.flip(0.1),
            "dry_run": False,
            "distributed_submitter": (g.flip(0.85) if dist_sub is None else dist_sub),
        }
        if tbb:
            params["per_node_batch_size"] = g.pick([0, 500])
        if mode == "hpc":
            params["hpc_config"] = {"hpc_type": "slurm", "job_prefix": g.pick(["job", "jb", "my_job"]),
                                    "hpc": gen_slurm_config(g, wall_min, full=prof.get("full_slurm", False))}
        else:
            params["hpc_config"] = {"hpc_type": "local", "hpc": {}}
        groups.append({"name": f"g{gi}" if ngroups > 1 or g.flip(0.5) else "default", "params": params,
                       "wall_min": wall_min})
    if any(gr["params"]["resource_monitor_type"] != "none" for gr in groups):
        # which statistics are collected (group parameter); per-process statistics exercise the
        # separate per-job summaries of the aggregator
        rms = {"cpu": g.flip(0.8), "memory": g.flip(0.8), "disk": False, "network": False, "process": g.flip(0.6)}
        for gr in groups:
            gr["params"]["resource_monitor_stats"] = dict(rms)
        sc["stat_patterns"] = ["increasing", "decreasing", "constant", "zero", "random", "spiky", "spiky"]
    if ngroups == 1 and prof.get("cli_params", True) and max_nodes != 1 and g.flip(0.25):
        # the common way to use JADE: a configuration without submission groups, every parameter given on
        # the submit-jobs command line (cli/common.py make_submitter_params builds the default group)
        gr = groups[0]
        gr["name"] = "default"
        p_ = gr["params"]
        p_["poll_interval"] = min(p_["poll_interval"], p_["resource_monitor_interval"])  # documented adjustment
        if p_["time_based_batching"]:
            p_["per_node_batch_size"] = 500  # the two options are mutually exclusive on the command line
        sc["cli_params"] = True
    sc["groups"] = groups
    # group-wide: all groups must share generate_reports etc? only max_nodes/poll_interval must match.
    jobs = []
    quoting = prof.get("quoting", False)
    for i in range(n):
        grp = groups[g.rint(0, ngroups - 1)] if ngroups > 1 else groups[0]
        # exit status as Popen reports it: 0-255, or negative when the process died from a signal
        # (OOM kill -9, SIGTERM -15, segfault -11); the real-probe child can only exit 0-255
        rc = 0 if g.flip(1.0 - p_fail) else g.pick(
            [1, 1, 2, 127, 255, 3] + ([] if prof.get("real_probe") else [-9, -15, -11]))
        dur = g.weighted([(0.05, 2), (1.0, 3), (7.0, 3), (45.0, 2), (600.0, 1), (7200.0, 0.3)])
        dur = dur * (0.5 + g.rint(0, 10) / 10.0)
        job = {
            "name": names[i],
            "explicit_name": explicit_names,
            "command": _command(g, prof, quoting, names[i]),
            "blocked_by": [names[b] for b in blocked[i]],
            "int_blockers": (not explicit_names) and g.flip(0.5),
            "rc": rc,
            "cancel": g.flip(prof.get("p_cancel_flag", 0.4)),
            "dur": round(dur, 3),
            "group": grp["name"],
            "append_job_name": g.flip(0.3) if quoting else False,
            "append_output_dir": g.flip(0.3) if quoting else False,
            "events": g.rint(1, 3) if g.flip(prof.get("p_job_events", 0.0)) else 0,
            "event_name": g.pick(["user_event", "user_event", "sim.started", "sim.finished", "sim"]),
        }
        if grp["params"]["time_based_batching"]:
            job["est"] = g.rint(1, grp["wall_min"])
        elif g.flip(0.2):
            job["est"] = g.rint(1, grp["wall_min"])
        jobs.append(job)
    sc["jobs"] = jobs
    hooks = {}
    for kind in ("setup", "teardown", "node_setup", "node_teardown"):
        if g.flip(prof.get("p_hooks", 0.1)):
            hooks[kind] = {"rc": 0 if (kind in ("setup", "node_setup") or g.flip(0.7)) else 1,
                           "dur": g.pick([0.0, 0.5, 20.0])}
    sc["hooks"] = hooks
    sc["env"] = gen_env(g, prof)
    if quoting and g.flip(0.3):
        sc["env"]["stale_jade_env"] = True
    # spontaneous user commands that compete for the submitter role
    user = []
    for _ in range(g.weighted([(0, 3), (1, 2), (2, 1), (4, 1)]) if prof.get("user_cmds", True) and mode == "hpc" else 0):
        cmd = g.weighted([("try-submit-jobs", 3), ("show-status", 2)])
        if g.flip(0.4):
            # relative trigger: right after the n-th job exit / launch / accepted sbatch, i.e. while
            # nodes are in the middle of recording results and finishing
            kind = g.weighted([("job_exit", 3), ("job_launch", 1), ("sbatch", 1)])
            u = {"cmd": cmd, "after": {"kind": kind, "n": g.rint(1, max(1, n))},
                 "delay": g.pick([0.0, 0.0, 0.3, 1.0, 5.0, 20.0])}
            if kind == "sbatch":
                u["after"]["ok"] = True
            user.append(u)
        else:
            t = g.pick([0.0, 0.5, 3.0, 12.0, 40.0, 100.0, 700.0, 5000.0]) * (0.5 + g.rint(0, 10) / 10.0)
            user.append({"at": round(t, 3), "cmd": cmd})
    sc["user"] = user
    return sc


# ---------------------------------------------------------------------- materialise
def job_order_names(sc):
    return [j["name"] for j in sc["jobs"]]


def build_job_config(sc, jobs, groups, hooks, path):
    """Create a JADE config file through the public models and config.dump()."""
    from jade.extensions.generic_command.generic_command_configuration import GenericCommandConfiguration
    from jade.extensions.generic_command.generic_command_parameters import GenericCommandParameters
    from jade.models import SubmissionGroup, SubmitterParams

    sgs = []
    cli = bool(sc.get("cli_params"))
    for grp in ([] if cli else groups):
        sgs.append(SubmissionGroup(name=grp["name"], submitter_params=SubmitterParams(**grp["params"])))
    kwargs = {}
    for kind, attr in (("setup", "setup_command"), ("teardown", "teardown_command"),
                       ("node_setup", "node_setup_command"), ("node_teardown", "node_teardown_command")):
        if kind in hooks:
            kwargs[attr] = f"simhook {kind}"
    config = GenericCommandConfiguration(**kwargs)
    for grp in sgs:
        config.append_submission_group(grp)
    for j in jobs:
        blockers = j["blocked_by"]
        if j.get("int_blockers"):
            blockers = [int(b) for b in blockers]
        kw = dict(command=j["command"], blocked_by=set(blockers),
                  cancel_on_blocking_job_failure=bool(j["cancel"]),
                  append_job_name=bool(j.get("append_job_name")), append_output_dir=bool(j.get("append_output_dir")))
        if not cli:
            kw["submission_group"] = j["group"]
        if j.get("explicit_name"):
            kw["name"] = j["name"]
        if j.get("est") is not None:
            kw["estimated_run_minutes"] = int(j["est"])
        config.add_job(GenericCommandParameters(**kw))
    config.dump(path, indent=2)
    return config


def materialise(sc, world):
    """Write the config file(s) of the scenario into the world's shared directory."""
    build_job_config(sc, sc["jobs"], sc["groups"], sc.get("hooks", {}), world.config_file)
    if sc.get("cli_params") and sc["groups"][0]["params"]["hpc_config"]["hpc_type"] != "local":
        import json
        import os

        with open(os.path.join(os.path.dirname(world.config_file), "hpc_config.json"), "w") as f:
            json.dump(sc["groups"][0]["params"]["hpc_config"], f, indent=2)


def submit_argv(sc, config_file, output):
    """The submit-jobs command line of the scenario."""
    argv = ["jade", "submit-jobs", config_file, "-o", output]
    if not sc.get("cli_params"):
        return argv
    import os

    p = sc["groups"][0]["params"]
    if p["hpc_config"]["hpc_type"] == "local":
        argv.append("-l")
    else:
        argv += ["-h", os.path.join(os.path.dirname(config_file), "hpc_config.json")]
    if p.get("time_based_batching"):
        argv.append("--time-based-batching")
    else:
        argv += ["-b", str(p["per_node_batch_size"])]
    if p.get("max_nodes") is not None:
        argv += ["-n", str(p["max_nodes"])]
    argv += ["-p", str(p["poll_interval"])]
    if p.get("num_parallel_processes_per_node") is not None:
        argv += ["-q", str(p["num_parallel_processes_per_node"])]
    argv.append("--try-add-blocked-jobs" if p.get("try_add_blocked_jobs") else "--no-try-add-blocked-jobs")
    argv.append("--reports" if p.get("generate_reports") else "--no-reports")
    argv += ["-R", str(p.get("resource_monitor_type", "none")), "-r", str(p["resource_monitor_interval"])]
    rms = p.get("resource_monitor_stats")
    if rms:
        for k in ("cpu", "memory", "disk", "network", "process"):
            if rms.get(k):
                argv += ["--resource-monitor-stats", k]
    if not p.get("distributed_submitter", True):
        argv.append("--no-distributed-submitter")
    if p.get("verbose"):
        argv.append("--verbose")
    if p.get("dry_run"):
        argv.append("--dry-run")
    return argv


def summary(sc):
    return {
        "profile": sc.get("profile"), "mode": sc.get("mode"), "n_jobs": len(sc.get("jobs", [])),
        "edges": sum(len(j["blocked_by"]) for j in sc.get("jobs", [])),
        "groups": [{k: g["params"].get(k) for k in ("per_node_batch_size", "time_based_batching",
                                                      "try_add_blocked_jobs", "max_nodes",
                                                      "num_parallel_processes_per_node")}
                   for g in sc.get("groups", [])],
        "hooks": sorted(sc.get("hooks", {})), "user": len(sc.get("user", [])),
        "faults": sc.get("faults"),
    }
