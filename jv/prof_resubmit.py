"""C13: resubmission reruns exactly the selected jobs and their dependents."""
import copy
import json
import os

from . import profiles, state
from .oracles import core
from .oracles.base import Monitor
from .run import Driver
from .scenario import Gen, gen_scenario


def gen_resubmit(ch, prof):
    sc = gen_scenario(ch, prof)
    g = Gen(ch)
    sc["env"]["p_stall"] = 0.0
    # per-epoch exit codes: a failed job may succeed when rerun and vice versa
    for j in sc["jobs"]:
        rcs = [j["rc"]]
        for _ in range(3):
            rcs.append(j["rc"] if g.flip(0.5) else (0 if g.flip(0.6) else g.pick([1, 2, 255])))
        j["rcs"] = rcs
    # produce missing jobs in the first epoch: lose a batch at sbatch
    if g.flip(0.45):
        sc["faults"] = {"sites": [{"kind": "sbatch_fail", "n": g.rint(0, 2), "mode": g.pick(["all", "permanent", "garbage"])}],
                        "first_epoch_only": True}
    elif g.flip(0.3):
        # ... or cancel the first epoch while jobs are still unsubmitted / running
        kind = g.pick(["sbatch", "job_launch", "job_exit"])
        u = {"cmd": "cancel-jobs", "flags": [], "tag": "cancel", "after": {"kind": kind, "n": g.rint(1, 3)},
             "delay": g.pick([0.0, 0.5, 5.0])}
        if kind == "sbatch":
            u["after"]["ok"] = True
        sc["user"] = sc.get("user", [])[:1] + [u]
        sc["cancel_first_epoch"] = True
    steps = []
    for _ in range(g.weighted([(1, 5), (2, 3), (3, 1)])):
        flags = []
        f, m, s = g.flip(0.7), g.flip(0.7), g.flip(0.25)
        flags.append("--failed" if f else "--no-failed")
        flags.append("--missing" if m else "--no-missing")
        flags.append("--successful" if s else "--no-successful")
        step = {"flags": flags}
        if g.flip(prof.get("p_group_edit", 0.0)):
            # documented: jade config save-submission-groups, edit, resubmit-jobs -s groups.json
            step["edit"] = {"walltime_x2": g.flip(0.5), "partition": g.pick([None, "debug", "long"]),
                            "batch_size": g.pick([None, 1, 2, 5]), "nproc": g.pick([None, 1, 2]),
                            "which": g.rint(0, 2)}
        steps.append(step)
    sc["resubmit"] = steps
    # eager user: resubmits as soon as show-status says complete (the completing node and other
    # batches may still be in the queue), instead of waiting until everything has left the queue
    sc["resubmit_eager"] = g.flip(0.5)
    sc["resubmit_delay"] = g.pick([0.0, 0.0, 0.5, 3.0, 30.0])
    # refusal probes: resubmit-jobs on the incomplete submission
    if g.flip(0.4):
        kind = g.pick(["sbatch", "job_launch", "job_exit"])
        u = {"cmd": "resubmit-jobs", "flags": [], "tag": "resubmit_early", "after": {"kind": kind, "n": g.rint(1, 3)},
             "delay": g.pick([0.0, 0.0, 0.5, 3.0]), "host": g.pick([None, None, "login2"])}
        if kind == "sbatch":
            u["after"]["ok"] = True
        sc["user"] = sc.get("user", [])[:2] + [u]
    return sc


def gen_resubmit_faults(ch, prof):
    """As gen_resubmit, plus a scheduler failure inside the resubmit-jobs command itself (its own round's
    status query or first submission fails in every retry): the command fails after it has reset the
    selected jobs.  C13: 'a failure of the command never leaves the submission with results erased and
    no way forward' - the documented try-submit-jobs must still bring it to completion."""
    sc = gen_resubmit(ch, prof)
    g = Gen(ch)
    for step in sc["resubmit"]:
        if g.flip(0.7):
            step["fault"] = g.weighted([("squeue_all", 4), ("sbatch_all", 1), ("squeue_k", 1)])
    # the status query of the command's own round needs an id that is still recorded: resubmit right away
    sc["resubmit_eager"] = g.flip(0.8)
    return sc


class ResubmitDriver(Driver):
    def __init__(self, w, prof):
        super().__init__(w, prof)
        self.steps = list(w.scenario.get("resubmit", []))
        self.pending = None
        self.history = []   # per resubmit command: dict(pre=..., vp=..., flags=...)
        self.group_edits = {}
        self.n_edits = 0

    def on_status(self, sub, o):
        w = self.w
        if o.get("completed_now") and w.scenario.get("resubmit_eager") and self.steps and sub.out == w.output:
            w.after(float(w.scenario.get("resubmit_delay", 0.0)), lambda: self._eager(), "user")

    def _eager(self, tries=0):
        st = self.status()
        if st and st.get("is_complete") and st.get("submitter") is not None and tries < 200:
            # (the user sees "complete" but the completing round has not released the role yet:
            # resubmit-jobs would just assert; a user retries a moment later)
            self.w.after(0.25, lambda: self._eager(tries + 1), "user")
            return
        if st and st.get("is_complete") and not any(v.alive and v.role == "resubmit-jobs" for v in self.w.vprocs):
            self.w.probe("resubmit_eager")
            self.after_complete(st)

    def _edited_groups(self, edit):
        """(reference groups after the edit, path of the groups file) - the file is what
        `jade config save-submission-groups` writes (the cluster's groups), with the same edits."""
        import copy
        import json

        w = self.w
        sub = w.octx.sub_for_abs(w.output)
        try:
            cfg = state.read_json(os.path.join(w.output, "cluster_config.json"))
        except state.Unparsable:
            return None, None
        if not cfg or sub is None:
            return None, None
        file_groups = copy.deepcopy(cfg["submission_groups"])
        ref = copy.deepcopy(sub.sc.groups)
        names = [g_["name"] for g_ in file_groups]
        target = names[edit["which"] % len(names)]
        for fg in file_groups:
            if fg["name"] != target:
                continue
            rg = ref[target]
            for params, hpc in ((fg["submitter_params"], fg["submitter_params"]["hpc_config"]["hpc"]),
                                (rg["params"], rg["params"]["hpc_config"]["hpc"])):
                if edit.get("walltime_x2"):
                    h, m, sec = (int(x) for x in str(hpc["walltime"]).split(":"))
                    tot = (h * 60 + m) * 2
                    hpc["walltime"] = f"{tot // 60}:{tot % 60:02d}:00"
                if edit.get("partition"):
                    hpc["partition"] = edit["partition"]
                if edit.get("batch_size") and not params.get("time_based_batching"):
                    params["per_node_batch_size"] = edit["batch_size"]
                if edit.get("nproc"):
                    params["num_parallel_processes_per_node"] = edit["nproc"]
            if edit.get("walltime_x2"):
                rg["wall_min"] = rg["wall_min"] * 2
        self.n_edits += 1
        path = os.path.join(w.shared_root, f"groups_edit_{self.n_edits}.json")
        with open(path, "w") as f:
            json.dump(file_groups, f, indent=2)
        return ref, path

    def on_record(self, rec):
        super().on_record(rec)
        if self.group_edits and rec[2] == "lock_acquire" and rec[3] in self.group_edits \
                and rec[4].get("path", "").endswith("/cluster_config.json.lock"):
            # the command decides under this lock hold; if the submission is complete it will proceed with
            # the edited groups, and every batch from now on is owed the new parameters
            w = self.w
            new_groups = self.group_edits.pop(rec[3])
            try:
                cfg = state.read_json(os.path.join(w.output, "cluster_config.json")) or {}
            except state.Unparsable:
                return
            if cfg.get("is_complete") and cfg.get("submitter") is None:
                sub = w.octx.sub_for_abs(w.output)
                sub.sc.groups.clear()
                sub.sc.groups.update(new_groups)
                w.probe("resubmit_with_edited_groups")

    def after_complete(self, st):
        w = self.w
        if w.scenario.get("faults", {}).get("first_epoch_only"):
            w.faults.sites = []
            w.faults.kinds = set()
        if not self.steps:
            return False
        step = self.steps.pop(0)
        pre = {}
        try:
            pre["rj"] = state.read_json(os.path.join(w.output, "results.json"))
            pre["rows"] = state.read_rows(os.path.join(w.output, "processed_results.csv")) or []
            pre["js"] = state.read_json(os.path.join(w.output, "job_status.json"))
        except state.Unparsable:
            return False
        pre["events_dir"] = os.path.isdir(os.path.join(w.output, "events"))
        self.recoveries = []
        extra = []
        new_groups = None
        if step.get("edit"):
            new_groups, path = self._edited_groups(step["edit"])
            if new_groups is not None:
                extra = ["-s", path]
        f = step.get("fault")
        if f:
            kind = "squeue_fail" if f.startswith("squeue") else "sbatch_fail"
            w.faults.kinds.add(kind)
            w.faults.sites.append({"kind": kind, "n": w.faults.counters.get(kind, 0),
                                   "mode": "all" if f.endswith("all") else "k"})
        vp = w.run_user_cmd(["jade", "resubmit-jobs", w.output] + step["flags"] + extra, tag="resubmit")
        if new_groups is not None:
            self.group_edits[vp.id] = new_groups
        self.history.append({"pre": pre, "vp": vp, "flags": step["flags"], "seq": w.seq})
        return True


class C13(Monitor):
    prop = "C13"

    def __init__(self, ctx):
        super().__init__(ctx)
        self.epochs = {}      # epoch number -> info dict
        self.early = {}       # vp id of an early resubmit -> info
        self.checked_epochs = set()
        self.cmds = {}        # vp id of every resubmit-jobs command -> captured pre-state
        self.pending = {}     # spawned resubmit-jobs commands that have not read the cluster state yet

    # ---------------------------------------------------------------- helpers
    def _info_for_new_epoch(self, sub):
        live = [c for vid, c in self.cmds.items() if c["vp"].alive and c["complete"]]
        if not live:
            return None
        h = live[-1]
        pre = h["pre"]
        rj = pre["rj"] or {}
        flags = h["flags"]
        # defaults of the command: --failed --missing --no-successful
        failed = "--no-failed" not in flags
        missing = "--no-missing" not in flags
        successful = "--successful" in flags
        res = {r["name"]: r for r in rj.get("results", [])}
        S = set()
        for n, r in res.items():
            c = state.classify(r)
            if failed and c in ("failed", "canceled"):
                S.add(n)
            if successful and c == "successful":
                S.add(n)
        if missing:
            for n in sub.sc.names:
                if n not in res:
                    S.add(n)
        E = sub.sc.closure(S)
        return {"S": S, "E": E, "pre": pre, "flags": flags, "old": {n: state.classify(r) for n, r in res.items()},
                "vp": h["vp"].id, "seq": h["seq"]}


    def on_status(self, sub, o):
        if o.get("new_epoch"):
            info = self._info_for_new_epoch(sub)
            if info is not None:
                self.epochs[sub.epoch] = info
                self.w.probe("resubmit_accepted")
                if len(info["E"]) > len(info["S"]):
                    self.w.probe("resubmit_closure_larger")
        if o.get("completed_now") and sub.epoch >= 1 and sub.epoch in self.epochs:
            self.check_epoch(sub, sub.epoch, o["seq"])

    def on_record(self, rec):
        seq, vt, kind, vpid, d = rec
        w = self.w
        if kind == "job_launch":
            sub = self.ctx.sub_for_abs((d.get("env") or {}).get("JADE_RUNTIME_OUTPUT"))
            if sub is None or sub.epoch < 1:
                return
            info = self.epochs.get(sub.epoch)
            if info is None:
                return
            n = d["name"]
            if n not in info["E"]:
                self.bad("reran_unselected", "a job that was neither selected nor dependent on a selected job was rerun",
                         f"{n} launched in epoch {sub.epoch}; flags {info['flags']} selected {sorted(info['S'])} closure {sorted(info['E'])}")
            have = state.names_with_rows(sub.out)
            for b in sub.sc.blockers.get(n, []):
                if b in info["E"] and b not in have:
                    self.bad("rerun_before_blocker", "a rerun job started before a rerun blocking job had a new outcome",
                             f"{n} launched at seq {seq} but rerun blocker {b} has no new result")
            if len(sub.launches_in_epoch(n)) > 1:
                self.bad("rerun_twice", "a job was rerun more than once by one resubmission", f"{n} in epoch {sub.epoch}")
        elif kind == "spawn" and d.get("role") == "resubmit-jobs":
            self.pending[vpid] = w.vprocs[vpid]
        elif kind == "lock_acquire" and vpid in self.pending and d.get("path", "").endswith("/cluster_config.json.lock"):
            # the command decides on the state it reads under its first hold of the cluster lock (not on
            # the state at the moment the user typed it: it may have waited for the lock meanwhile)
            vp = self.pending.pop(vpid)
            sub = self.ctx.sub_for_abs(w.output)
            try:
                cfg_now = state.read_json(os.path.join(sub.out, "cluster_config.json")) or {}
            except state.Unparsable:
                return
            complete = bool(cfg_now.get("is_complete"))
            pre = {"rj": None, "rows": [], "events_dir": os.path.isdir(os.path.join(sub.out, "events"))}
            try:
                pre["rj"] = state.read_json(os.path.join(sub.out, "results.json"))
                pre["rows"] = state.read_rows(os.path.join(sub.out, "processed_results.csv")) or []
            except state.Unparsable:
                pass
            flags = [a for a in vp.argv if a.startswith("--")]
            self.cmds[vpid] = {"pre": pre, "flags": flags, "complete": complete, "seq": seq, "vp": vp}
            if not complete and sub.monitoring:
                self.early[vpid] = {"seq": seq, "epoch": sub.epoch}
                w.probe("resubmit_on_incomplete")
                if any(v.alive and v is not vp and w.in_submitter_subtree(v) for v in w.vprocs):
                    w.probe("resubmit_while_round_active")
        elif kind in ("sbatch", "fs") and self.early:
            root = self._root(vpid)
            if root in self.early:
                if kind == "sbatch":
                    self.bad("refused_but_submitted", "resubmit-jobs on an incomplete submission handed a batch to the HPC",
                             f"batch {d.get('batch')}")
                else:
                    p = d.get("path", "")
                    if p.endswith("/processed_results.csv") or p.endswith("/job_status.json") or p.endswith("/results.json"):
                        self.bad("refused_but_wrote", "resubmit-jobs on an incomplete submission changed results or job status",
                                 f"{d.get('op')} {p}")
        elif kind == "exit" and vpid in self.cmds and vpid not in self.early:
            # a resubmit-jobs command on a complete submission ended: whatever it did, it must not
            # keep the submitter role (later commands - repeated resubmissions - could not act)
            vp = w.vprocs[vpid]
            sub = self.ctx.sub_for_abs(w.output)
            if not vp.killed:
                try:
                    cfg = state.read_json(os.path.join(sub.out, "cluster_config.json")) or {}
                except state.Unparsable:
                    cfg = {}
                others = [v for v in w.vprocs if v.alive and v is not vp and w.in_submitter_subtree(v)]
                killed = [v for v in w.vprocs if v.killed and v.kill_reason != "reap" and w.in_submitter_subtree(v)]
                if cfg.get("submitter") == vp.host and not others and not killed:
                    self.bad("role_leaked_by_resubmit", "resubmit-jobs ended but kept the submitter role",
                             f"resubmit-jobs {' '.join(self.cmds[vpid]['flags'])} rc={d.get('rc')} out={vp.stdout_text()[-80:]!r}; "
                             f"cluster_config.json still names submitter {cfg.get('submitter')!r}")
        elif kind == "exit" and vpid in self.early:
            vp = w.vprocs[vpid]
            if d.get("rc") == 0:
                self.bad("not_refused", "resubmit-jobs on an incomplete submission did not refuse", f"rc=0 out={vp.stdout_text()[-100:]!r}")
            if vp.crash:
                self.bad("refusal_crashed", "resubmit-jobs on an incomplete submission crashed instead of refusing",
                         f"{vp.crash['type']} at {vp.crash['where']}: {vp.crash['msg'][:150]}")
            sub = self.ctx.sub_for_abs(w.output)
            lp = os.path.join(sub.out, "cluster_config.json.lock")
            if os.path.lexists(lp) and os.path.getsize(lp) == 0:
                self.bad("refusal_left_lock", "resubmit-jobs on an incomplete submission left the cluster lock marker behind",
                         f"crash={vp.crash and vp.crash['type']}")

    def _root(self, vpid):
        if vpid is None or vpid < 0:
            return None
        vp = self.w.vprocs[vpid]
        while vp.parent is not None and vp.parent.role != "node":
            vp = vp.parent
        return vp.id

    # ---------------------------------------------------------------- per-epoch check at re-completion
    def check_epoch(self, sub, ep, seq):
        if ep in self.checked_epochs:
            return
        self.checked_epochs.add(ep)
        info = self.epochs[ep]
        sc = sub.sc
        E = info["E"]
        w = self.w
        w.probe("resubmit_completed")
        if any(r[2] == "fault" and r[0] > info["seq"] for r in w.history):
            return
        try:
            rows = state.read_rows(os.path.join(sub.out, "processed_results.csv")) or []
            rj = state.read_json(os.path.join(sub.out, "results.json")) or {}
        except state.Unparsable as e:
            self.bad("results_unparsable", "results do not parse after re-completion", str(e))
            return
        by = {}
        for r in rows:
            by.setdefault(r["name"], []).append(r)
        old_rows = {r["name"]: r for r in info["pre"]["rows"]}
        # (3) results of all other jobs are preserved
        for n in sc.names:
            if n in E:
                continue
            o = old_rows.get(n)
            cur = by.get(n, [])
            if o is None:
                if cur:
                    self.bad("unselected_got_result", "a job outside the rerun set gained a result", f"{n}: {cur[0]}")
                continue
            # the statement names: name, return code, status and times
            if len(cur) != 1 or any(cur[0][k] != o[k] for k in ("name", "return_code", "status", "exec_time_s", "completion_time")):
                self.bad("unselected_result_changed", "the result of a job outside the rerun set was not preserved",
                         f"{n}: before {o} after {cur}")
        lo = sub.last_obs
        if lo and lo.get("cfg") and lo["cfg"].get("is_canceled"):
            return  # the user canceled this resubmission epoch: reruns are not owed
        # (1) exactly the jobs of E are rerun (each once), or canceled by the reference
        new_cls = {}
        order, _ = sc.topo()
        for n in order:
            if n not in E:
                continue
            bs = sc.blockers.get(n, [])
            in_e = [b for b in bs if b in E]
            out_e = [b for b in bs if b not in E]
            flagged = bool(sc.spec[n].get("cancel"))
            must_cancel = flagged and any(new_cls.get(b) in ("failed", "canceled") for b in in_e)
            ambiguous = flagged and any(info["old"].get(b) in ("failed", "canceled") for b in out_e)
            launches = len(sub.launches_in_epoch(n, ep))
            cur = by.get(n, [])
            rc = self._rc(sc.spec[n], ep)
            if any(new_cls.get(b) == "missing" or (b not in E and b not in old_rows) for b in in_e):
                new_cls[n] = "missing"
                continue
            if must_cancel:
                want = ["canceled"]
            elif ambiguous:
                want = ["canceled", "ran"]
            else:
                want = ["ran"]
            if len(cur) != 1:
                self.bad("rerun_result_count", "a rerun job does not have exactly one result after re-completion",
                         f"{n}: {len(cur)} results, {launches} launches (epoch {ep}, flags {info['flags']})")
                new_cls[n] = "missing"
                continue
            got = state.classify(cur[0])
            new_cls[n] = got
            if got == "canceled":
                if "canceled" not in want:
                    self.bad("rerun_wrongly_canceled", "a rerun job was canceled although no rerun blocker failed",
                             f"{n}: blockers in rerun set {[(b, new_cls.get(b)) for b in in_e]}")
                if launches:
                    self.bad("rerun_canceled_but_ran", "a rerun job was canceled but its command was started", n)
            else:
                if "ran" not in want:
                    self.bad("rerun_not_canceled", "a flagged rerun job ran although a rerun blocker failed or was canceled",
                             f"{n}: blockers {[(b, new_cls.get(b)) for b in in_e]}")
                if launches != 1:
                    self.bad("rerun_launch_count", "a rerun job was not started exactly once",
                             f"{n}: {launches} launches in epoch {ep}")
                if cur[0]["return_code"] != rc:
                    self.bad("rerun_return_code", "a rerun job's result does not carry its new exit code",
                             f"{n}: recorded {cur[0]['return_code']} real {rc}")
        # (4) shape
        res_names = [r["name"] for r in rj.get("results", [])]
        miss = list(rj.get("missing_jobs", []))
        if sorted(res_names + miss) != sorted(sc.names):
            self.bad("results_shape", "results and missing jobs do not partition the configured jobs after resubmission",
                     f"results {sorted(res_names)} missing {sorted(miss)}")
        if len(set(res_names)) != len(res_names):
            self.bad("results_shape", "results and missing jobs do not partition the configured jobs after resubmission",
                     f"duplicate entries {sorted(res_names)}")

    def _rc(self, spec, ep):
        rcs = spec.get("rcs")
        if rcs:
            return int(rcs[min(ep, len(rcs) - 1)])
        return int(spec.get("rc", 0))

    # ---------------------------------------------------------------- end of run
    def finish(self):
        w = self.w
        drv = w.driver
        if w.cut:
            return
        sub = self.ctx.sub_for_abs(w.output)
        if any(r[2] == "lock_timeout" for r in w.history):
            return
        if any(v.killed and v.kill_reason != "reap" and w.in_submitter_subtree(v) for v in w.vprocs):
            # cancel-jobs' scancel killed a node's closing try-submit-jobs while it held the role:
            # the documented crash deadlock (C11's subject)
            w.probe("cancel_killed_a_submitter")
            return
        for h in self.cmds.values():
            if not h["complete"]:
                continue
            vp = h["vp"]
            failed_cmd = vp.exit_code not in (0, None) or vp.crash
            # was the command accepted (epoch started)?
            ep = next((e for e, i in self.epochs.items() if i["vp"] == vp.id), None)
            lo = sub.last_obs
            complete = bool(lo and lo.get("cfg") and lo["cfg"].get("is_complete"))
            if failed_cmd:
                w.probe("resubmit_command_failed")
                pre_rows = {r["name"]: r for r in h["pre"]["rows"]}
                try:
                    rows = {r["name"]: r for r in (state.read_rows(os.path.join(sub.out, "processed_results.csv")) or [])}
                except state.Unparsable:
                    rows = {}
                intact = complete and all(n in rows for n in pre_rows)
                if ep is None and intact:
                    continue
                if not complete:
                    erased = sorted(n for n in pre_rows if n not in rows)
                    self.bad("failed_resubmit_no_way_forward",
                             "a failed resubmit-jobs left the submission with results erased and no way forward",
                             f"resubmit-jobs {' '.join(h['flags'])} rc={vp.exit_code} crash={vp.crash and (vp.crash['type'], vp.crash['where'])}; "
                             f"results erased for {erased}; reports directory existed: {h['pre']['events_dir']}; "
                             f"status after {len(drv.recoveries)} recovery commands: {core._brief(lo)}")
                    return
            if ep is not None and not complete and not any(r[2] == "fault" for r in w.history if r[0] > h["seq"]):
                self.bad("resubmission_not_complete", "an accepted resubmission did not reach completion",
                         f"flags {h['flags']} status {core._brief(lo)} crashes={sorted({(v.role, v.crash['type']) for v in w.vprocs if v.crash})}")
                return
            if ep is not None and complete and ep == sub.epoch:
                self.check_epoch(sub, ep, w.seq)


def _extra(ctx, props):
    if "C13" not in props:
        return []
    m = core.C10World(ctx)
    m.prop = "C13"
    m._act = lambda *a, **k: None  # only the role-stripping part matters here
    return [C13(ctx), m]


profiles.profile("resubmit", mode="hpc", fault_free=True, no_liveness=True, kind="world", gen=gen_resubmit,
                 extra_monitors=_extra, driver_cls=ResubmitDriver, max_jobs=8, p_reports=0.5, p_fail=0.45,
                 max_steps=60000)
profiles.PROFILE_PROPS["resubmit"] = ["C13"]
profiles.profile("resubmit_faults", mode="hpc", fault_free=False, no_liveness=True, kind="world", gen=gen_resubmit_faults,
                 extra_monitors=_extra, driver_cls=ResubmitDriver, max_jobs=8, p_reports=0.5, p_fail=0.45,
                 max_steps=60000)
profiles.PROFILE_PROPS["resubmit_faults"] = ["C13"]
profiles.CHECKS["C13"] = {"profiles": [("resubmit", 1.0), ("resubmit_faults", 0.25)], "quick": {"runs": 3200}, "thorough": {"runs": 150000}}
profiles.RULES["C13"] = ("first epoch run to completion with a drawn mix of successful / failed / canceled / missing jobs (missing via a "
                         "lost batch), reports on or off, then 1-3 jade resubmit-jobs with drawn --failed/--missing/--successful flags, "
                         "each run to completion; exit codes may change per epoch; plus resubmit-jobs issued on the incomplete "
                         "submission at a drawn moment (also from a second login host); plus (resubmit_faults) a status query or submission "
                         "that fails in every retry inside the resubmit-jobs command itself, followed by the documented recovery; "
                         "non-trivial = a resubmission was accepted "
                         "with a closure strictly larger than the selection, or a refusal was exercised")
_old = profiles.nontrivial


def _nontrivial(prop, w):
    if prop == "C13":
        return w.probes.get("resubmit_closure_larger", 0) + w.probes.get("resubmit_on_incomplete", 0) >= 1
    return _old(prop, w)


profiles.nontrivial = _nontrivial

# C09 is also observed over cancel and resubmit histories (DESIGN.md 7.9)
profiles.CHECKS["C09"]["profiles"] = [("clean_hpc", 0.5), ("cancel", 0.25), ("resubmit", 0.25)]
profiles.CHECKS["C02"]["profiles"] = [("clean_hpc", 0.55), ("clean_local", 0.25), ("resubmit", 0.2)]
profiles.CHECKS["C06"]["profiles"] = [("clean_hpc", 0.5), ("clean_local", 0.2), ("resubmit", 0.3)]


def gen_resubmit_limits(ch, prof):
    """C06 over resubmissions: small node limit, small batches, an impatient user who resubmits
    (also successful jobs, so that there are more rerun batches than free slots) while the
    completing batch and its neighbours are still in the queue."""
    sc = gen_resubmit(ch, prof)
    g = Gen(ch)
    mn = g.pick([1, 1, 2, 2, 3])
    for grp in sc["groups"]:
        grp["params"]["max_nodes"] = mn
        if not grp["params"]["time_based_batching"]:
            grp["params"]["per_node_batch_size"] = g.pick([1, 1, 2, 3])
    sc["resubmit_eager"] = g.flip(0.85)
    sc["resubmit_delay"] = g.pick([0.0, 0.0, 0.0, 0.5, 3.0])
    for step in sc["resubmit"]:
        if g.flip(0.5):
            step["flags"] = [f for f in step["flags"] if "successful" not in f] + ["--successful"]
    return sc


def gen_resubmit_cancel(ch, prof):
    """C10 in full-world runs around resubmission: the user changes their mind and types cancel-jobs
    right after resubmit-jobs (same login host), i.e. while resubmit-jobs holds the submitter role on a
    submission that is still marked complete; a second user does the same from another login host."""
    sc = gen_resubmit(ch, prof)
    g = Gen(ch)
    u = {"cmd": "cancel-jobs", "flags": [], "tag": "cancel_after_resubmit",
         "after": {"kind": "user", "tag": "resubmit", "n": g.pick([1, 1, 2])},
         "delay": g.pick([0.0, 0.0, 0.0, 0.01, 0.05, 0.5]), "host": g.pick([None, None, None, "login2"])}
    sc["user"] = [x for x in sc.get("user", []) if x.get("tag") != "cancel"] + [u]
    sc.pop("cancel_first_epoch", None)
    sc["env"]["op_lat"] = g.pick([0.0, 0.02, 0.02, 0.5])
    return sc


profiles.profile("resubmit_cancel", mode="hpc", fault_free=True, no_liveness=True, kind="world", gen=gen_resubmit_cancel,
                 extra_monitors=_extra, driver_cls=ResubmitDriver, max_jobs=6, p_reports=0.2, p_fail=0.45, max_steps=60000)
profiles.PROFILE_PROPS["resubmit_cancel"] = ["C10"]
profiles.CHECKS["C10"]["profiles"] = [("comp_cluster", 0.7), ("clean_hpc", 0.15), ("resubmit_cancel", 0.15)]
profiles.profile("resubmit_groups", mode="hpc", fault_free=True, no_liveness=True, kind="world", gen=gen_resubmit,
                 extra_monitors=_extra, driver_cls=ResubmitDriver, max_jobs=6, p_reports=0.2, p_fail=0.5, max_steps=60000,
                 p_group_edit=0.7, full_slurm=True)
profiles.PROFILE_PROPS["resubmit_groups"] = ["C07", "C18", "C06"]
profiles.RULES["C07"] += ("; plus resubmissions with edited submission groups (jade config save-submission-groups, edit walltime / "
                          "partition / batch size / processes per node, resubmit-jobs -s): every later batch is owed the edited "
                          "group's parameters")
profiles.profile("resubmit_limits", mode="hpc", fault_free=True, no_liveness=True, kind="world", gen=gen_resubmit_limits,
                 extra_monitors=_extra, driver_cls=ResubmitDriver, max_jobs=8, min_jobs=3, p_reports=0.2, p_fail=0.45,
                 max_steps=60000)
profiles.PROFILE_PROPS["resubmit_limits"] = ["C06"]
profiles.CHECKS["C06"]["profiles"] = [("clean_hpc", 0.4), ("clean_local", 0.15), ("resubmit", 0.1), ("resubmit_limits", 0.2),
                                      ("flaky_scheduler", 0.15)]
profiles.RULES["C06"] = profiles.RULES["C06"].replace("as C01;", "as C01, plus resubmissions issued while old batches are still queued or running, plus rounds whose status query or submission fails (squeue / sbatch faults);")
profiles.RULES["C02"] = profiles.RULES["C02"].replace("HPC and local mode;", "HPC and local mode, plus resubmission epochs (blockers that are rerun must have a new outcome);")
profiles.RULES["C09"] = profiles.RULES["C09"].replace("as C01;", "as C01, plus cancel and resubmit histories;")

# C16 / C20 over resubmission epochs: setup is not rerun, teardown is; the event summary is
# consolidated again (resubmit-jobs clears events/)
profiles.profile("resubmit_hooks", mode="hpc", fault_free=True, no_liveness=True, kind="world", gen=gen_resubmit,
                 extra_monitors=_extra, driver_cls=ResubmitDriver, max_jobs=6, p_reports=0.3, p_fail=0.45,
                 p_hooks=0.5, max_steps=60000)
profiles.profile("resubmit_reports", mode="hpc", fault_free=True, no_liveness=True, kind="world", gen=gen_resubmit,
                 extra_monitors=_extra, driver_cls=ResubmitDriver, max_jobs=6, p_reports=0.7, p_fail=0.45,
                 p_job_events=0.5, p_monitor=0.3, max_steps=60000)
profiles.PROFILE_PROPS["resubmit_hooks"] = ["C16"]
profiles.PROFILE_PROPS["resubmit_reports"] = ["C20"]
profiles.CHECKS["C16"]["profiles"] = [("clean_hpc_hooks", 0.5), ("clean_local_hooks", 0.3), ("resubmit_hooks", 0.2)]
profiles.CHECKS["C20"]["profiles"] = [("clean_hpc_reports", 0.4), ("clean_local_reports", 0.2), ("resubmit_reports", 0.15),
                                      ("comp_events", 0.25)]
profiles.CHECKS["C20"]["quick"] = {"runs": 3200}
profiles.RULES["C16"] += "; plus resubmission epochs (setup not rerun, teardown once per completion)"
profiles.RULES["C20"] += ("; plus resubmission epochs (the summary is consolidated again) and a component simulation of "
                          "EventsSummary (drawn multisets over per-process files, ties, skewed clocks, reload, re-consolidation, "
                          "resubmission sequence) and ResourceMonitorAggregator (drawn sample sequences per statistic)")
