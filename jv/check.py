"""Checker CLI.

  python -m jv.check <property> --tier quick|thorough     decide one property
  python -m jv.check --replay <file>                      replay a violation file

Exit 0: property held on everything explored (KNOWN-FINDING lines possible)
Exit 1: VIOLATION property=<id> replay=<path> (minimised and re-reproduced)
Exit 2: harness error (never a verdict)
"""
import argparse
import collections
import concurrent.futures as cf
import faulthandler
import hashlib
import json
import multiprocessing
import os
import subprocess
import sys
import time

VERIF = os.path.dirname(os.path.dirname(os.path.abspath(__file__)))
if VERIF not in sys.path:
    sys.path.insert(0, VERIF)


def _reexec_pinned():
    if os.environ.get("PYTHONHASHSEED") != "0" and not os.environ.get("JV_NO_REEXEC"):
        env = dict(os.environ)
        env["PYTHONHASHSEED"] = "0"
        env["PYTHONDONTWRITEBYTECODE"] = "1"
        env["JADE_VERIF_SIM"] = "1"
        os.execve(sys.executable, [sys.executable, "-m", "jv.check"] + sys.argv[1:], env)


from jv import REPO  # noqa: E402

TASK_TIMEOUT = 600


# ------------------------------------------------------------------ single case
def run_case(prof_name, seed, props, scenario=None, trace=None, then_generate=False, keep_world=False,
             sample=False, plan=None):
    from jv import run, scenario as scen_mod, profiles
    from jv.kernel import Chooser

    prof = profiles.PROFILES[prof_name]
    gen = prof.get("gen")
    if scenario is None:
        ch = Chooser(f"scen/{seed}")
        if gen is not None:
            scenario = gen(ch, prof)
        else:
            scenario = scen_mod.gen_scenario(ch, prof)
        if plan is not None:
            scenario["faults"] = plan
    runner = prof.get("runner")
    t0 = time.perf_counter()
    if runner is not None:
        w = runner(scenario, prof, seed, trace=trace, then_generate=then_generate, props=props)
    else:
        w = run.execute(scenario, prof, seed, trace=trace, then_generate=then_generate, props=props)
    wall = time.perf_counter() - t0
    res = summarise(w, prof_name, seed, props, scenario, wall, sample)
    if keep_world:
        return w, res
    return None, res


def sched_digest(w):
    h = hashlib.blake2b(digest_size=8)
    for r in w.history:
        if r[2] in ("lock_acquire", "sbatch", "squeue", "scancel", "job_launch", "spawn"):
            vp = w.vprocs[r[3]] if r[3] >= 0 else None
            h.update(f"{vp.role if vp else '-'}:{r[2]};".encode())
    return h.hexdigest()


def summarise(w, prof_name, seed, props, scenario, wall, sample):
    from jv import profiles, scenario as scen_mod

    viols = []
    seen = set()
    for v in w.violations:
        if v["property"] not in props:
            continue
        sig = (v["property"], v["oracle"], v["key"])
        if sig in seen:
            continue
        seen.add(sig)
        viols.append(v)
    crashes = collections.Counter()
    harness = list(w.harness_errors)
    for v in w.vprocs:
        if v.crash:
            crashes[f"{v.role}:{v.crash['type']}@{v.crash['where']}"] += 1
            if "harness" in v.crash and not v.crash["where"]:
                harness.append(v.crash["harness"])
    res = {
        "profile": prof_name, "seed": seed, "digest": w.digest(), "sched": sched_digest(w),
        "steps": w.steps, "vtime": round(w.now - w.t0, 3), "cut": w.cut, "wall": wall,
        "violations": viols, "probes": dict(w.probes), "faults": dict(w.faults_fired),
        "crashes": dict(crashes), "harness": harness[:2], "trace_len": len(w.ch.trace),
        "nontrivial": {p: bool(profiles.nontrivial(p, w)) for p in props},
        "cmds": dict(getattr(getattr(w, "shell", None), "cmd_counts", {}) or {}),
        "states": sorted(hashlib.blake2b(repr(x).encode(), digest_size=6).hexdigest()
                         for x in (getattr(w, "status_states", ()) or ())),
        "n_vprocs": len(w.vprocs),
        "faults_detail": [(f["kind"], f.get("mode")) for f in getattr(getattr(w, "faults", None), "fired", [])][:4],
    }
    extra = getattr(w, "extra_result", None)
    if extra:
        res.update(extra)
    if viols:
        res["scenario"] = scenario
        res["trace"] = list(w.ch.trace)
    if sample:
        res["sample"] = {
            "seed": seed, "profile": prof_name,
            "scenario": scen_mod.summary(scenario) if "jobs" in scenario else {k: scenario[k] for k in list(scenario)[:8]},
            "history_head": [list(r[:4]) + [_trim(r[4])] for r in w.history[:40]],
            "history_len": len(w.history), "outcome": {"violations": len(viols), "cut": w.cut, "steps": w.steps},
        }
    return res


def _trim(d):
    out = {}
    for k, v in d.items():
        s = json.dumps(v, default=str)
        out[k] = v if len(s) < 160 else s[:160] + "..."
    return out


# ------------------------------------------------------------------ pool
def _init_worker():
    from jv import run

    faulthandler.enable()
    run.prepare_process()
    from jv import plugins  # noqa: F401  (registers all profiles)


def _task(args):
    prof_name, seeds, props, n_samples = args
    faulthandler.dump_traceback_later(TASK_TIMEOUT, exit=True)
    out = []
    try:
        for i, seed in enumerate(seeds):
            try:
                _, res = run_case(prof_name, seed, props, sample=i < n_samples)
            except Exception as e:  # noqa: BLE001 harness failure, not a verdict
                import traceback

                res = {"profile": prof_name, "seed": seed, "harness": ["".join(traceback.format_exception(e))[-3000:]],
                       "violations": [], "failed": True}
            out.append(res)
    finally:
        faulthandler.cancel_dump_traceback_later()
    return out


def _task_sweep(args):
    """One pilot execution + one run per (sampled) fault site, under both lock behaviours."""
    import copy
    import random

    prof_name, seed, props, quick = args
    from jv import profiles, prof_faults
    from jv.kernel import Chooser

    faulthandler.dump_traceback_later(TASK_TIMEOUT * 3, exit=True)
    out = []
    try:
        prof = profiles.PROFILES[prof_name]
        sc0 = prof["gen"](Chooser(f"scen/{seed}"), prof)
        try:
            w, pilot = run_case(prof_name, seed, props, scenario=copy.deepcopy(sc0), keep_world=True, sample=True)
        except Exception as e:  # noqa: BLE001
            import traceback

            return [{"profile": prof_name, "seed": seed, "harness": ["".join(traceback.format_exception(e))[-3000:]],
                     "violations": [], "failed": True}]
        pilot["pilot"] = True
        counters = dict(w.faults.counters)
        pilot["fault_sites"] = counters
        out.append(pilot)
        rng = random.Random(f"sweep/{seed}")
        plans = prof_faults.sweep_plans(counters, quick, rng, hot={k: list(v) for k, v in w.faults.hot.items()})
        pilot["hot_sites"] = {k: len(v) for k, v in w.faults.hot.items()}
        pilot["sites_run"] = len(plans)
        for i, site in enumerate(plans):
            behaviours = ["never_break", "break_stale"]
            if quick:
                behaviours = [behaviours[i % 2]]
            for lb in behaviours:
                sc = copy.deepcopy(sc0)
                sc["faults"]["sites"] = [dict(site)]
                sc["env"]["lock_behaviour"] = lb
                try:
                    _, res = run_case(prof_name, seed, props, scenario=sc, sample=(i == 0 and lb == behaviours[0]))
                except Exception as e:  # noqa: BLE001
                    import traceback

                    res = {"profile": prof_name, "seed": seed, "harness": ["".join(traceback.format_exception(e))[-3000:]],
                           "violations": [], "failed": True}
                res["site"] = dict(site, lock_behaviour=lb)
                out.append(res)
    finally:
        faulthandler.cancel_dump_traceback_later()
    return out


def _task_eval(args):
    """Evaluate candidate (scenario, seed, trace) for a given signature; used by the shrinker."""
    prof_name, seed, props, scenario, trace, sig = args
    faulthandler.dump_traceback_later(TASK_TIMEOUT, exit=True)
    try:
        _, res = run_case(prof_name, seed, props, scenario=scenario, trace=trace)
    except Exception:  # noqa: BLE001
        return None
    finally:
        faulthandler.cancel_dump_traceback_later()
    for v in res["violations"]:
        if (v["property"], v["oracle"], v["key"]) == tuple(sig):
            return {"trace": res.get("trace"), "digest": res["digest"], "message": v["message"], "steps": res["steps"]}
    return None


def make_pool(workers):
    ctx = multiprocessing.get_context("fork")
    return cf.ProcessPoolExecutor(max_workers=workers, mp_context=ctx, initializer=_init_worker)


# ------------------------------------------------------------------ known findings
def load_known():
    p = os.path.join(VERIF, "known_findings.json")
    if not os.path.exists(p):
        return []
    with open(p) as f:
        return json.load(f).get("findings", [])


def match_known(known, v):
    import re

    for k in known:
        if k.get("status") != "known":
            continue
        if k["property"] == v["property"] and k["oracle"] == v["oracle"] and k.get("key", v["key"]) == v["key"]:
            m = k.get("message_regex")
            if m and not re.search(m, v["message"]):
                continue
            return k
    return None


# ------------------------------------------------------------------ shrinking
def shrink(pool, prof_name, props, case, sig, budget_s=120.0):
    """Two-phase minimisation: scenario edits re-searched over seeds, then exact trace shrinking."""
    from jv import shrinker

    return shrinker.shrink(pool, prof_name, props, case, sig, budget_s, _task_eval)


def tree_digest():
    h = hashlib.sha256()
    base = os.path.join(REPO, "jade")
    for root, dirs, files in sorted(os.walk(base)):
        dirs.sort()
        for fn in sorted(files):
            if fn.endswith(".py"):
                p = os.path.join(root, fn)
                h.update(p[len(base):].encode())
                with open(p, "rb") as f:
                    h.update(f.read())
    return h.hexdigest()


def write_replay(prop, prof_name, props, case, sig, message, digest):
    d = os.path.join(os.environ.get("JV_REPLAY_DIR") or os.path.join(VERIF, "replays"), prop)
    os.makedirs(d, exist_ok=True)
    sh = hashlib.sha256(json.dumps(sig).encode()).hexdigest()[:10]
    seed_tag = hashlib.sha256(str(case["seed"]).encode()).hexdigest()[:8]
    path = os.path.join(d, f"{sh}-{seed_tag}.json")
    data = {
        "property": prop, "oracle": sig[1], "signature": list(sig), "seed": case["seed"], "profile": prof_name,
        "props": sorted(props), "scenario": case["scenario"], "trace": case["trace"], "expected_digest": digest,
        "message": message, "jade_tree_digest": tree_digest(),
    }
    with open(path, "w") as f:
        json.dump(data, f, indent=1, default=str)
    return path


def replay_file(path, quiet=False):
    """Run a replay file in this process.  Returns (reproduced, info)."""
    from jv import run

    with open(path) as f:
        data = json.load(f)
    run.prepare_process()
    from jv import plugins  # noqa: F401

    _, res = run_case(data["profile"], data["seed"], set(data["props"]), scenario=data["scenario"], trace=data["trace"])
    sig = tuple(data["signature"])
    hit = None
    for v in res["violations"]:
        if (v["property"], v["oracle"], v["key"]) == sig:
            hit = v
    same_digest = res["digest"] == data.get("expected_digest")
    return hit is not None, {"digest_match": same_digest, "digest": res["digest"], "message": hit and hit["message"],
                             "property": data["property"], "harness": res.get("harness")}


def fresh_replay(path):
    """Replay in a fresh interpreter; returns (reproduced, digest_match)."""
    env = dict(os.environ)
    env["PYTHONHASHSEED"] = "0"
    p = subprocess.run([sys.executable, "-m", "jv.check", "--replay", path, "--json"], cwd=VERIF, env=env,
                       capture_output=True, text=True, timeout=600)
    try:
        info = json.loads(p.stdout.strip().splitlines()[-1])
    except (ValueError, IndexError):
        return False, False, p.stdout[-500:] + p.stderr[-500:]
    return info.get("reproduced", False), info.get("digest_match", False), ""


# ------------------------------------------------------------------ main check
def seeds_for(verif_seed, prof_name, n, offset=0):
    return [f"{verif_seed}/{prof_name}/{i}" for i in range(offset, offset + n)]


def check(prop, tier, workers, runs_override=None, verif_seed=0, max_wall=None):
    from jv import profiles, plugins  # noqa: F401

    t_start = time.time()
    spec = profiles.CHECKS[prop]
    tier_cfg = dict(profiles.TIERS[tier])
    tier_cfg.update(spec.get(tier, {}))
    total = runs_override or tier_cfg["runs"]
    props = set(spec.get("props", [prop]))
    known = load_known()
    print(f"VERIF_SEED={verif_seed} property={prop} tier={tier} runs={total} workers={workers}", flush=True)

    tasks = []
    chunk = int(spec.get("chunk", 25))
    for prof_name, wgt in spec["profiles"]:
        n = max(1, int(round(total * wgt)))
        seeds = seeds_for(verif_seed, prof_name, n)
        first = True
        for i in range(0, n, chunk):
            tasks.append((prof_name, seeds[i:i + chunk], props, 2 if first else 0))
            first = False
    sweep_prof = spec.get("sweep")
    sweep_tasks = []
    if sweep_prof:
        for i in range(int(tier_cfg.get("pilots", 0))):
            sweep_tasks.append((sweep_prof, f"{verif_seed}/{sweep_prof}/{i}", props, tier == "quick"))
    results = []
    harness_msgs = []
    violations = {}  # sig -> first failing case
    known_hits = collections.Counter()
    pool = make_pool(workers)
    timed_out = False
    try:
        futs = [pool.submit(_task_sweep, t) for t in sweep_tasks] + [pool.submit(_task, t) for t in tasks]
        for fut in cf.as_completed(futs):
            try:
                lst = fut.result()
            except Exception as e:  # BrokenProcessPool, worker killed by watchdog
                harness_msgs.append(f"worker failure: {type(e).__name__}: {e}")
                break
            for res in lst:
                results.append(res)
                if res.get("harness"):
                    harness_msgs.extend(res["harness"])
                for v in res.get("violations", []):
                    if v["property"] != prop:
                        continue
                    k = match_known(known, v)
                    if k is not None:
                        known_hits[(k["property"], k["what_fails"])] += 1
                        continue
                    sig = (v["property"], v["oracle"], v["key"])
                    if sig not in violations:
                        violations[sig] = {"seed": res["seed"], "profile": res["profile"], "scenario": res["scenario"],
                                           "trace": res["trace"], "message": v["message"], "digest": res["digest"],
                                           "count": 0}
                    violations[sig]["count"] += 1
            if max_wall and time.time() - t_start > max_wall:
                timed_out = True
                for f in futs:
                    f.cancel()
                break
        # ---- violations: shrink, replay in a fresh process, report
        reported = []
        exit_code = 0
        if harness_msgs:
            print("HARNESS-ERROR (not a verdict):", harness_msgs[0][-1500:], flush=True)
            exit_code = 2
        for sig, case in list(violations.items())[:3]:
            print(f"violation candidate {sig} seed={case['seed']} ({case['count']} runs): {case['message'][:300]}", flush=True)
            try:
                small = shrink(pool, case["profile"], props, case, sig, budget_s=spec.get("shrink_budget", 90.0))
            except Exception as e:  # noqa: BLE001
                print(f"shrink failed ({type(e).__name__}: {e}); reporting unshrunk", flush=True)
                small = None
            if small is None:
                small = {"seed": case["seed"], "scenario": case["scenario"], "trace": case["trace"],
                         "message": case["message"], "digest": case["digest"]}
            path = write_replay(prop, case["profile"], props, small, sig, small["message"], small["digest"])
            ok, dm, err = fresh_replay(path)
            if not ok:
                # fall back to the unshrunk case
                path = write_replay(prop, case["profile"], props, case, sig, case["message"], case["digest"])
                ok, dm, err = fresh_replay(path)
            if ok:
                print(f"VIOLATION property={prop} replay={path}", flush=True)
                print(f"  oracle={sig[1]} key={sig[2]!r} digest_match={dm}\n  {small['message'][:500]}", flush=True)
                reported.append(path)
                exit_code = max(exit_code, 1) if exit_code != 2 else 2
            else:
                print(f"HARNESS-ERROR: violation {sig} did not reproduce from its replay file {path}: {err}", flush=True)
                exit_code = 2
    finally:
        # Never leave worker processes behind: they inherit stdout, and a caller that waits for
        # EOF on our output would wait for them.
        procs = list(getattr(pool, "_processes", {}).values())
        pool.shutdown(wait=False, cancel_futures=True)
        for pr in procs:
            try:
                pr.terminate()
            except Exception:  # noqa: BLE001
                pass
        for pr in procs:
            try:
                pr.join(2.0)
                if pr.is_alive():
                    pr.kill()
                    pr.join(2.0)
            except Exception:  # noqa: BLE001
                pass
        # the scratch directories of the (terminated) workers and our own
        import shutil as _sh

        for pid in [pr.pid for pr in procs if pr.pid] + [os.getpid()]:
            _sh.rmtree(f"/dev/shm/jade-verif-{pid:07d}", ignore_errors=True)
    for (p, what), n in sorted(known_hits.items()):
        print(f"KNOWN-FINDING: property={p} {what} ({n} runs)", flush=True)
    wall = time.time() - t_start
    write_evidence(prop, tier, verif_seed, spec, props, results, wall, violations, known_hits, harness_msgs, workers)
    if timed_out and exit_code == 0:
        print("wall-clock budget reached before all runs were executed", flush=True)
    n_ok = sum(1 for r in results if not r.get("failed"))
    print(f"property={prop} runs={n_ok} violations={len(violations)} known={sum(known_hits.values())} wall={wall:.1f}s exit={exit_code}", flush=True)
    return exit_code


def write_evidence(prop, tier, verif_seed, spec, props, results, wall, violations, known_hits, harness_msgs, workers):
    from jv import profiles, components

    ok = [r for r in results if not r.get("failed")]
    digests = set()
    nontriv = 0
    sched = set()
    probes = collections.Counter()
    faults = collections.Counter()
    crashes = collections.Counter()
    cmds = collections.Counter()
    cuts = collections.Counter()
    steps = 0
    vtime = 0.0
    samples = []
    extra_counts = collections.Counter()
    status_states = set()
    for r in ok:
        status_states.update(r.get("states") or ())
        sched.add(r["sched"])
        if r["nontrivial"].get(prop) and r["digest"] not in digests:
            digests.add(r["digest"])
            nontriv += 1
        for k, v in r.get("probes", {}).items():
            probes[k] += v
        for k, v in r.get("faults", {}).items():
            faults[k] += v
        for k, v in r.get("crashes", {}).items():
            crashes[k] += v
        for k, v in r.get("cmds", {}).items():
            cmds[k] += v
        for k, v in r.get("counts", {}).items():
            extra_counts[k] += v
        if r.get("cut"):
            cuts[r["cut"]] += 1
        steps += r.get("steps", 0)
        vtime += r.get("vtime", 0.0)
        if "sample" in r and len(samples) < 4:
            samples.append(r["sample"])
    pilots = [r for r in ok if r.get("pilot")]
    site_runs = [r for r in ok if r.get("site")]
    sweep_info = None
    if pilots:
        tot_sites = collections.Counter()
        for r in pilots:
            for k, v in r.get("fault_sites", {}).items():
                tot_sites[k] += v
        by_kind = collections.Counter(r["site"]["kind"] for r in site_runs)
        sweep_info = {"pilot_runs": len(pilots), "fault_sites_in_pilots": dict(tot_sites), "site_runs": len(site_runs),
                      "site_runs_by_kind": dict(by_kind),
                      "lock_behaviours": dict(collections.Counter(r["site"]["lock_behaviour"] for r in site_runs)),
                      "all_sites_of_each_pilot": tier == "thorough"}
    level = profiles.LEVELS.get(prop, "exploration")
    ev = {
        "property_id": prop, "tier": tier, "seed": int(verif_seed), "level": level,
        "wall_s": round(wall, 2), "violations": len(violations),
        "coverage": {
            "evaluations": len(ok), "distinct_nontrivial": nontriv,
            "rule": profiles.RULES.get(prop, ""),
            "samples": samples or [{"note": "no run completed"}],
            "profiles": [p for p, _ in spec["profiles"]],
            "runs_per_hour": int(len(ok) / wall * 3600) if wall > 0 else 0,
            "seeds": {"first": f"{verif_seed}/{spec['profiles'][0][0]}/0", "count": len(ok)},
            "simulated_seconds": round(vtime, 1), "steps": steps,
            "faults_fired": dict(faults), "probes": dict(probes),
            "distinct_schedules": len(sched), "distinct_status_states": len(status_states), "distinct_histories": len({r["digest"] for r in ok}),
            "inconclusive_runs": dict(cuts), "harness_errors": len(harness_msgs),
            "jade_process_crashes": dict(crashes),
            "known_findings_hit": {f"{p}: {w_}": n for (p, w_), n in known_hits.items()},
            "commands_served_by_stubs": dict(cmds), "extra_counts": dict(extra_counts),
            "real_components": components.REAL, "stub_components": components.STUBS,
            "jade_tree_digest": tree_digest(), "workers": workers,
            "kill_point_sweep": sweep_info,
        },
        "assumptions": components.ASSUMPTIONS,
    }
    d = os.environ.get("JV_EVIDENCE_DIR") or os.path.join(VERIF, "evidence")
    os.makedirs(d, exist_ok=True)
    with open(os.path.join(d, f"{prop}.json"), "w") as f:
        json.dump(ev, f, indent=1, default=str)


def main():
    ap = argparse.ArgumentParser()
    ap.add_argument("property", nargs="?")
    ap.add_argument("--tier", default=os.environ.get("VERIF_TIER", "quick"))
    ap.add_argument("--workers", type=int, default=int(os.environ.get("JV_WORKERS", "16")))
    ap.add_argument("--runs", type=int, default=None)
    ap.add_argument("--replay", default=None)
    ap.add_argument("--json", action="store_true")
    ap.add_argument("--max-wall", type=float, default=None)
    a = ap.parse_args()
    _reexec_pinned()
    if a.replay:
        ok, info = replay_file(a.replay)
        if a.json:
            print(json.dumps({"reproduced": ok, **info}, default=str))
        else:
            if ok:
                print(f"VIOLATION property={info['property']} replay={a.replay}")
                print(f"  digest_match={info['digest_match']} {info['message']}")
            else:
                print(f"replay did not reproduce the violation (digest_match={info['digest_match']})")
        sys.exit(1 if ok else 0)
    if not a.property:
        ap.error("property id required")
    if a.tier not in ("quick", "thorough"):
        a.tier = "quick"
    verif_seed = int(os.environ.get("VERIF_SEED", "0") or 0)
    rc = check(a.property, a.tier, a.workers, a.runs, verif_seed, a.max_wall)
    sys.stdout.flush()
    os._exit(rc)


if __name__ == "__main__":
    main()
