"""Profiles: named scenario-generation + driver + oracle configurations, and the mapping
property -> profiles / non-triviality rule / bounds."""

PROFILES = {}


def profile(name, **kw):
    kw["name"] = name
    PROFILES[name] = kw
    return kw


# fault-free HPC run driven to completion (stalls, skew, reordering are legal behaviour)
profile("clean_hpc", mode="hpc", fault_free=True, kind="world")
profile("clean_local", mode="local", fault_free=True, kind="world", user_cmds=False, multi_group=True)
profile("clean_hpc_small", mode="hpc", fault_free=True, kind="world", max_jobs=4)
profile("clean_hpc_quoting", mode="hpc", fault_free=True, kind="world", quoting=True, max_jobs=6, p_monitor=0.4)
profile("clean_local_quoting", mode="local", fault_free=True, kind="world", quoting=True, max_jobs=6,
        user_cmds=False, p_monitor=0.4)
profile("clean_hpc_probe", mode="hpc", fault_free=True, kind="world", quoting=True, max_jobs=5, real_probe=True)
profile("clean_local_probe", mode="local", fault_free=True, kind="world", quoting=True, max_jobs=5, real_probe=True,
        user_cmds=False)
profile("clean_hpc_hooks", mode="hpc", fault_free=True, kind="world", p_hooks=0.5, max_jobs=8)
profile("clean_local_hooks", mode="local", fault_free=True, kind="world", p_hooks=0.5, max_jobs=8,
        user_cmds=False)
profile("clean_hpc_reports", mode="hpc", fault_free=True, kind="world", p_reports=0.6, p_monitor=0.7,
        p_job_events=0.5, max_jobs=8)
profile("clean_local_reports", mode="local", fault_free=True, kind="world", p_reports=0.6, p_monitor=0.7,
        p_job_events=0.5, max_jobs=8, user_cmds=False)
profile("clean_hpc_slurm", mode="hpc", fault_free=True, kind="world", full_slurm=True, max_jobs=6)


# property -> (profiles with weights, monitors' property set)
CHECKS = {
    "C01": {"profiles": [("clean_hpc", 1.0)]},
    "C02": {"profiles": [("clean_hpc", 0.7), ("clean_local", 0.3)]},
    "C03": {"profiles": [("clean_hpc", 0.7), ("clean_local", 0.3)]},
    "C04": {"profiles": [("clean_hpc", 0.7), ("clean_local", 0.3)]},
    "C05": {"profiles": [("clean_hpc", 1.0)]},
    "C06": {"profiles": [("clean_hpc", 0.7), ("clean_local", 0.3)]},
    "C07": {"profiles": [("clean_hpc_small", 0.6), ("clean_hpc", 0.4)]},
    "C09": {"profiles": [("clean_hpc", 1.0)]},
    "C16": {"profiles": [("clean_hpc_hooks", 0.6), ("clean_local_hooks", 0.4)]},
    "C18": {"profiles": [("clean_hpc_slurm", 1.0)]},
    "C19": {"profiles": [("clean_hpc_quoting", 0.45), ("clean_local_quoting", 0.3), ("clean_hpc_probe", 0.15),
                         ("clean_local_probe", 0.1)]},
    "C20": {"profiles": [("clean_hpc_reports", 0.6), ("clean_local_reports", 0.4)]},
}

TIERS = {
    "quick": {"runs": 4000},
    "thorough": {"runs": 120000},
}

LEVELS = {}  # property -> level category (default exploration)


def nontrivial(prop, w):
    """The property's stated rule for a run that exercises it non-trivially."""
    ctx = getattr(w, "octx", None)
    subs = list(ctx.subs.values()) if ctx else []
    hist = w.history
    if prop == "C01":
        rounds = {r[3] for r in hist if r[2] == "fs" and r[4].get("op") == "create" and r[4].get("path", "").endswith("submitter.lock")}
        return any(len(s.batches) >= 2 for s in subs) and len(rounds) >= 2
    if prop == "C02":
        return w.probes.get("launch_with_blockers", 0) >= 1
    if prop == "C03":
        return w.probes.get("completed_checked", 0) >= 1 and any(len(s.sc.names) >= 2 for s in subs)
    if prop == "C04":
        return w.probes.get("completed_checked", 0) >= 1 and any(
            "canceled" in s.sc.refdag().values() for s in subs)
    if prop == "C05":
        return w.probes.get("recovery_round_needed", 0) >= 1 or w.probes.get("last_node_refused", 0) >= 1
    if prop == "C06":
        return w.probes.get("max_nodes_reached", 0) >= 1 or w.probes.get("node_full", 0) >= 1
    if prop == "C07":
        return any(len(s.batches) >= 2 for s in subs) or w.probes.get("blocked_job_in_batch", 0) >= 1
    if prop == "C09":
        return sum(1 for s in subs for o in s.obs if o.get("cfg")) >= 6
    if prop == "C16":
        return any(r[2] == "hook" for r in hist)
    if prop == "C18":
        return any(r[2] == "sbatch" for r in hist)
    if prop == "C19":
        return any(r[2] == "job_launch" for r in hist)
    if prop == "C20":
        return w.probes.get("events_checked", 0) >= 1 or w.probes.get("stats_checked", 0) >= 1
    return True


RULES = {
    "C01": "seeded random scenario (DAG x submitter parameters x environment knobs) run to completion under a seeded schedule; non-trivial = >= 2 batches handed to SimSlurm and >= 2 promoted submitter rounds; distinct = distinct canonical history digest",
    "C02": "as C01, HPC and local mode; non-trivial = at least one launch of a job that has blockers (checked against result rows on disk at the launch instant)",
    "C03": "as C01, HPC and local mode; non-trivial = completed submission of >= 2 jobs whose final results were compared with the reference DAG evaluation",
    "C04": "as C03; non-trivial = the reference evaluation cancels at least one job",
    "C05": "as C01 with the documented try-submit-jobs / show-status recovery at quiescence; non-trivial = at least one recovery command was needed or a node's closing try-submit-jobs was refused",
    "C06": "as C01; non-trivial = the max-nodes limit or a node's process limit was actually reached",
    "C07": "as C01 biased to <= 4 jobs; non-trivial = >= 2 batches or a blocked job placed with its blocker; every batch handed to SimSlurm is checked",
    "C09": "as C01; non-trivial = >= 6 lock-free status observations",
    "C16": "as C01 with lifecycle commands set with p=0.5 each, HPC and local; non-trivial = at least one hook command ran",
    "C18": "as C01 with every optional SlurmConfig field set with p=0.5; non-trivial = at least one sbatch",
    "C19": "as C01 with commands from the quoting alphabet and append_* flags; non-trivial = at least one job launch",
    "C20": "as C01 with reports / resource monitoring / job events enabled; non-trivial = consolidated events or aggregated stats were compared with ground truth",
}

# monitors attached when a profile is run by the self-tests
PROFILE_PROPS = {
    "clean_hpc": ["C01", "C02", "C03", "C04", "C05", "C06", "C07", "C09", "C18"],
    "clean_local": ["C02", "C03", "C04", "C06"],
    "clean_hpc_small": ["C07"],
    "clean_hpc_quoting": ["C19"], "clean_local_quoting": ["C19"],
    "clean_hpc_probe": ["C19"], "clean_local_probe": ["C19"],
    "clean_hpc_hooks": ["C16"], "clean_local_hooks": ["C16"],
    "clean_hpc_reports": ["C20"], "clean_local_reports": ["C20"],
    "clean_hpc_slurm": ["C18"],
}
