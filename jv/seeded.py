"""Handling of seeded changes written by independent sub-agents.

  python -m jv.seeded confirm <ID> <agent-out-dir> [--props C08,C11] [--name short-name]
      confirm the sub-agent's claim in a fresh scratch worktree of /repo (demo passes without and
      fails with the patch; the pinned suite's passing set is unchanged), copy patch + demo to
      /verif/seeded/<ID>/ and write meta.json
  python -m jv.seeded detect <ID> [--runs N] [--props ...]
      run the quick checks of the named properties against a scratch copy of /repo/jade with the
      patch applied (JADE_VERIF_REPO) and record the outcome in meta.json
  python -m jv.seeded index       regenerate seeded/INDEX.md
"""
import glob
import json
import re
import os
import shutil
import subprocess
import sys
import time
import xml.etree.ElementTree as ET

VERIF = os.path.dirname(os.path.dirname(os.path.abspath(__file__)))
SEEDED = os.path.join(VERIF, "seeded")
PY = sys.executable


def sh(cmd, cwd=None, timeout=3000, env=None):
    p = subprocess.run(cmd, cwd=cwd, shell=isinstance(cmd, str), capture_output=True, text=True, timeout=timeout, env=env)
    return p.returncode, p.stdout + p.stderr


def passing_set(wt):
    xml = os.path.join(wt, ".jv_junit.xml")
    sh([PY, "-m", "pytest", "-q", "-p", "no:cacheprovider", "--timeout=900", "--continue-on-collection-errors",
        f"--junitxml={xml}"], cwd=wt)
    out = set()
    try:
        for tc in ET.parse(xml).iter("testcase"):
            if not any(c.tag in ("failure", "error", "skipped") for c in tc):
                out.add(f"{tc.get('classname')}::{tc.get('name')}")
    finally:
        if os.path.exists(xml):
            os.remove(xml)
    return out


def run_demo(wt, demo_dir):
    tests = sorted(glob.glob(os.path.join(demo_dir, "test_*.py")))
    progs = sorted(p for p in glob.glob(os.path.join(demo_dir, "*.py"))
                   if not os.path.basename(p).startswith("test_") and os.path.basename(p).startswith(("demo", "run_", "repro")))
    if tests:
        progs = []  # other .py files next to pytest demonstrations are their helpers
    results = []
    for t in tests:
        rc, out = sh([PY, "-m", "pytest", "-q", "-p", "no:cacheprovider", "-x", t], cwd=wt, timeout=1200)
        results.append((os.path.basename(t), rc, out[-400:]))
    for p in progs:
        rc, out = sh([PY, p], cwd=wt, timeout=1200)
        results.append((os.path.basename(p), rc, out[-400:]))
    return results


def confirm(sid, outdir, props, name):
    base = json.load(open("/root/.vp/BASELINE.json"))["stable_pass"]
    wt = f"/tmp/seedv-{sid}"
    # the pinned suite uses fixed names under the temp directory: a private one per confirmation, so
    # that several confirmations can run side by side
    tmpd = f"/tmp/seedv-{sid}-tmp"
    shutil.rmtree(tmpd, ignore_errors=True)
    os.makedirs(tmpd)
    os.environ["TMPDIR"] = tmpd
    sh(["git", "-C", "/repo", "worktree", "remove", "--force", wt])
    rc, out = sh(["git", "-C", "/repo", "worktree", "add", "-q", wt, "HEAD"])
    if rc:
        print(out)
        return 1
    try:
        patch = os.path.join(outdir, "patch.diff")
        demo_tmp = os.path.join(wt, ".jv_demo")
        os.makedirs(demo_tmp)
        for f in glob.glob(os.path.join(outdir, "*.py")):
            shutil.copy(f, demo_tmp)
        without = run_demo(wt, demo_tmp)
        rc, out = sh(["git", "apply", patch], cwd=wt)
        if rc:
            print("patch does not apply:", out)
            return 1
        with_ = run_demo(wt, demo_tmp)
        shutil.rmtree(demo_tmp)
        ps = passing_set(wt)
        missing = sorted(set(base) - ps)
        ok_without = bool(without) and all(rc == 0 for _, rc, _ in without)
        ok_with = any(rc != 0 for _, rc, _ in with_)
        print("demo without patch:", [(n, rc) for n, rc, _ in without])
        print("demo with patch:   ", [(n, rc) for n, rc, _ in with_])
        print("baseline tests missing with patch:", missing)
        confirmed = ok_without and ok_with and not missing
        d = os.path.join(SEEDED, sid)
        os.makedirs(d, exist_ok=True)
        shutil.copy(patch, os.path.join(d, "patch.diff"))
        for f in glob.glob(os.path.join(outdir, "*.py")):
            shutil.copy(f, d)
        notes = os.path.join(outdir, "notes.md")
        if os.path.exists(notes):
            shutil.copy(notes, os.path.join(d, "agent_notes.md"))
        meta = {"id": sid, "name": name, "breaks": props, "source": "independent sub-agent given only the property text and a scratch worktree",
                "confirmed": confirmed,
                "confirmation": {"demo_without_patch": [(n, rc) for n, rc, _ in without],
                                 "demo_with_patch": [(n, rc) for n, rc, _ in with_],
                                 "pinned_suite_passing_with_patch": len(ps & set(base)), "baseline_missing": missing,
                                 "ran": "fresh scratch worktree of /repo HEAD; demo run without the patch, `git apply patch.diff`, demo run again, pinned suite run with --junitxml and compared with BASELINE.json"},
                "needs_to_manifest": "", "detection": {}}
        mp = os.path.join(d, "meta.json")
        if os.path.exists(mp):
            old = json.load(open(mp))
            meta["needs_to_manifest"] = old.get("needs_to_manifest", "")
            meta["detection"] = old.get("detection", {})
        json.dump(meta, open(mp, "w"), indent=1)
        print("confirmed:", confirmed)
        return 0 if confirmed else 2
    finally:
        sh(["git", "-C", "/repo", "worktree", "remove", "--force", wt])
        shutil.rmtree(wt, ignore_errors=True)
        shutil.rmtree(tmpd, ignore_errors=True)


def detect(sid, props, runs):
    d = os.path.join(SEEDED, sid)
    meta = json.load(open(os.path.join(d, "meta.json")))
    props = props or meta["breaks"]
    base = f"/dev/shm/jade-seed-{os.getpid()}-{sid}"
    shutil.rmtree(base, ignore_errors=True)
    os.makedirs(base)
    try:
        shutil.copytree("/repo/jade", os.path.join(base, "jade"), ignore=shutil.ignore_patterns("__pycache__"))
        rc, out = sh(["git", "apply", "--unsafe-paths", f"--directory={base}", os.path.join(d, "patch.diff")], cwd="/")
        if rc:
            rc, out = sh(f"patch -p1 -d {base} < {os.path.join(d, 'patch.diff')}")
            if rc:
                print("cannot apply patch:", out)
                return 1
        for prop in props:
            env = dict(os.environ, JADE_VERIF_REPO=base, JV_EVIDENCE_DIR=os.path.join(base, "ev"),
                       JV_REPLAY_DIR=os.path.join(base, "rp"))
            cmd = [PY, "-m", "jv.check", prop, "--tier", "quick"] + (["--runs", str(runs)] if runs else [])
            t = time.time()
            r = subprocess.run(cmd, cwd=VERIF, env=env, capture_output=True, text=True, timeout=6000)
            dt = time.time() - t
            viol = [ln for ln in r.stdout.splitlines() if ln.startswith("VIOLATION")]
            orac = [ln.strip() for ln in r.stdout.splitlines() if ln.startswith("  oracle=")]
            msgs = [ln.strip() for ln in r.stdout.splitlines() if ln.startswith("violation candidate")]
            res = {"exit": r.returncode, "detected": r.returncode == 1 and bool(viol), "oracles": [o[:160] for o in orac][:3],
                   "first_message": (msgs[0][:400] if msgs else ""), "wall_s": round(dt, 1),
                   "cmd": " ".join(cmd[1:]), "tail": r.stdout[-300:] if r.returncode not in (0, 1) else ""}
            meta["detection"][prop] = res
            print(sid, prop, "DETECTED" if res["detected"] else f"missed (exit {r.returncode})", res["oracles"][:1], f"{dt:.0f}s")
        json.dump(meta, open(os.path.join(d, "meta.json"), "w"), indent=1)
    finally:
        shutil.rmtree(base, ignore_errors=True)
    return 0


def probe(sid, prop, seeds):
    """Run the quick check of `prop` against the patched copy under several VERIF_SEEDs; prints only."""
    d = os.path.join(SEEDED, sid)
    base = f"/dev/shm/jade-seed-{os.getpid()}-{sid}"
    shutil.rmtree(base, ignore_errors=True)
    os.makedirs(base)
    try:
        shutil.copytree("/repo/jade", os.path.join(base, "jade"), ignore=shutil.ignore_patterns("__pycache__"))
        rc, out = sh(["git", "apply", "--unsafe-paths", f"--directory={base}", os.path.join(d, "patch.diff")], cwd="/")
        if rc:
            print("cannot apply", out)
            return 1
        hits = 0
        for seed in seeds:
            env = dict(os.environ, JADE_VERIF_REPO=base, JV_EVIDENCE_DIR=os.path.join(base, "ev"),
                       JV_REPLAY_DIR=os.path.join(base, "rp"), VERIF_SEED=str(seed))
            r = subprocess.run([PY, "-m", "jv.check", prop, "--tier", "quick"], cwd=VERIF, env=env, capture_output=True,
                               text=True, timeout=6000)
            msgs = [ln for ln in r.stdout.splitlines() if ln.startswith("violation candidate")]
            n = re.search(r"\((\d+) runs\)", msgs[0]).group(1) if msgs else "0"
            hits += r.returncode == 1
            print(f"{sid} {prop} VERIF_SEED={seed}: exit {r.returncode}, failing runs of first signature: {n}", flush=True)
        print(f"{sid} {prop}: caught under {hits}/{len(seeds)} seeds")
    finally:
        shutil.rmtree(base, ignore_errors=True)
    return 0


def index():
    rows = []
    for mp in sorted(glob.glob(os.path.join(SEEDED, "*", "meta.json"))):
        m = json.load(open(mp))
        det = []
        for p, r in sorted(m.get("detection", {}).items()):
            det.append(f"{p}: {'caught' if r.get('detected') else 'MISSED'}" + (f" ({r['oracles'][0].split(' key=')[0].replace('oracle=', '')})" if r.get("oracles") else ""))
        rows.append(f"| {m['id']} | {', '.join(m['breaks'])} | {m.get('name', '')} | {m.get('needs_to_manifest', '')} | {'yes' if m.get('confirmed') else 'NO'} | {'; '.join(det)} | {m.get('strengthening', '')} |")
    with open(os.path.join(SEEDED, "INDEX.md"), "w") as f:
        f.write("# Seeded changes\n\nEach directory holds `patch.diff` (against /repo HEAD), the sub-agent's demonstration, its notes and "
                "`meta.json`. None of these patches is ever committed to /repo. `python -m jv.seeded detect <id>` re-runs the checks "
                "against a scratch copy with the patch applied.\n\n"
                "| id | breaks | change | needs to manifest | sub-agent demo confirmed | our checks | what was strengthened |\n|---|---|---|---|---|---|---|\n")
        f.write("\n".join(rows) + "\n")
    print(f"{len(rows)} seeded changes indexed")


def main():
    a = sys.argv[1:]
    if not a:
        print(__doc__)
        return 0

    def opt(name, default=None):
        if name in a:
            return a[a.index(name) + 1]
        return default

    if a[0] == "confirm":
        props = (opt("--props") or a[1][:3]).split(",")
        return confirm(a[1], a[2], props, opt("--name", ""))
    if a[0] == "detect":
        props = opt("--props")
        return detect(a[1], props.split(",") if props else None, opt("--runs"))
    if a[0] == "index":
        return index()
    if a[0] == "probe":
        return probe(a[1], a[2], [int(x) for x in (a[3:] or ["1", "2", "3"])])


if __name__ == "__main__":
    sys.exit(main() or 0)
