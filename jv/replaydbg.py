"""Debug helper: replay a file and print the history.  python -m jv.replaydbg <file> [grep]"""
import json, sys, os
sys.path.insert(0, os.path.dirname(os.path.dirname(os.path.abspath(__file__))))
from jv import run
run.prepare_process()
from jv import plugins
from jv.check import run_case
d = json.load(open(sys.argv[1]))
w, res = run_case(d["profile"], d["seed"], set(d["props"]), scenario=d["scenario"], trace=d["trace"], keep_world=True)
pat = sys.argv[2] if len(sys.argv) > 2 else None
for r in w.canon_history():
    if pat is None or pat in r:
        print(r[:int(os.environ.get("W", "260"))])
print("VIOLATIONS", json.dumps(res["violations"], indent=1)[:3000])
print("crashes", res["crashes"])
