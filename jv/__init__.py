"""jv: deterministic simulation with fault injection for NREL/jade.

See /verif/DESIGN.md.  Everything here runs the real JADE code from /repo inside
one process, as cooperatively scheduled "virtual processes", against simulated
SLURM, a virtual clock, a fault-injecting file seam and a model of SoftFileLock.
"""
import os
import sys

REPO = os.environ.get("JADE_VERIF_REPO", "/repo")
VERIF = os.path.dirname(os.path.dirname(os.path.abspath(__file__)))


def ensure_repo_on_path():
    if REPO not in sys.path:
        sys.path.insert(0, REPO)
