"""Sensitivity self-test (development tool, not a registered command): apply small
property-breaking edits to a scratch copy of /repo/jade and require the corresponding
check to report a violation within its quick budget.

  python -m jv.mutants [id ...]         run all / selected mutants
  python -m jv.mutants --list
"""
import os
import shutil
import subprocess
import sys
import time

VERIF = os.path.dirname(os.path.dirname(os.path.abspath(__file__)))

# (id, property, file, old, new, runs)
M = [
    ("c08_no_node_lock", "C08", "jade/jobs/results_aggregator.py",
     "results += agg.move_results(self._append_processed_results)",
     "results += agg._move_results(self._append_processed_results)", 3000),
    ("c11_delete_before_append", "C11", "jade/jobs/results_aggregator.py",
     "        func(results)\n        os.remove(self._filename)\n",
     "        os.remove(self._filename)\n        func(results)\n", 3000),
    ("c08_no_append_lock", "C08", "jade/jobs/results_aggregator.py",
     "        self._do_action_under_lock(self._append_result, text)",
     "        self._append_result(text)", 3000),
    ("c01_no_skip_submitted", "C01", "jade/hpc/hpc_submitter.py",
     "                if job.name in submitted_jobs_by_name:\n                    continue\n",
     "", 2400),
    ("c01_no_batch_index_bump", "C01", "jade/hpc/hpc_submitter.py",
     "        self._batch_index += 1\n", "", 1200),
    ("c07_ignore_missing_blockers", "C07", "jade/hpc/hpc_submitter.py",
     "        if not job.blocked_by:\n            return False\n",
     "        if not job.blocked_by or len(job.blocked_by) > 1:\n            return False\n", 1200),
    ("c02_queue_ignores_blockers", "C02", "jade/jobs/job_queue.py",
     "        elif job.get_blocking_jobs():\n", "        elif False:\n", 2400),
    ("c02_submitter_drops_blockers", "C02", "jade/hpc/hpc_submitter.py",
     "                        job.blocked_by.difference_update(newly_completed)",
     "                        job.blocked_by.clear() if newly_completed else None", 2400),
    ("c04_cancel_rc0", "C04", "jade/hpc/hpc_submitter.py",
     "result = Result(job.name, 1, JobCompletionStatus.CANCELED, 0, hpc_job_id=None)",
     "result = Result(job.name, 0, JobCompletionStatus.CANCELED, 0, hpc_job_id=None)", 2400),
    ("c04_queue_cancel_unflagged", "C04", "jade/jobs/job_queue.py",
     "if job.cancel_on_blocking_job_failure and blocking_jobs.intersection(",
     "if blocking_jobs.intersection(", 2400),
    ("c05_mark_complete_first", "C05", "jade/jobs/job_submitter.py",
     "        self.write_results_summary(RESULTS_FILE, missing_jobs)\n",
     "        cluster.mark_complete()\n        self.write_results_summary(RESULTS_FILE, missing_jobs)\n", 1200),
    ("c06_queue_off_by_one", "C06", "jade/jobs/job_queue.py",
     "return len(self._outstanding_jobs) >= self._queue_depth",
     "return len(self._outstanding_jobs) > self._queue_depth", 2400),
    ("c07_batch_size_off_by_one", "C07", "jade/hpc/hpc_submitter.py",
     "elif self.num_jobs >= self._per_node_batch_size:",
     "elif self.num_jobs > self._per_node_batch_size:", 1200),
    ("c07_cli_batch_size_ignored", "C07", "jade/cli/common.py",
     "        per_node_batch_size=per_node_batch_size,\n        distributed_submitter=not no_distributed_submitter,",
     "        per_node_batch_size=SUBMITTER_PARAMS_DEFAULTS[\"per_node_batch_size\"],\n        distributed_submitter=not no_distributed_submitter,", 2400),
    ("c06_cli_nproc_ignored", "C06", "jade/cli/common.py",
     "        num_parallel_processes_per_node=num_parallel_processes_per_node,\n        per_node_batch_size",
     "        num_parallel_processes_per_node=None,\n        per_node_batch_size", 2400),
    ("c07_dryrun_submits", "C07", "jade/hpc/hpc_manager.py",
     "        if dry_run:\n            logger.info(\"Dry run mode enabled. Return without submitting.\")\n            return 0, Status.GOOD\n",
     "        if dry_run and wait:\n            logger.info(\"Dry run mode enabled. Return without submitting.\")\n            return 0, Status.GOOD\n", 1600),
    ("c09_no_blocked_clear", "C09", "jade/jobs/cluster.py",
     "            if job.blocked_by and job.state in (JobState.SUBMITTED, JobState.DONE):\n",
     "            if False and job.blocked_by and job.state in (JobState.SUBMITTED, JobState.DONE):\n", 2400),
    ("c09_completed_not_counted", "C09", "jade/jobs/cluster.py",
     "            status_lookup[name].state = JobState.DONE\n            self._config.completed_jobs += 1\n",
     "            status_lookup[name].state = JobState.DONE\n            self._config.completed_jobs += (0 if len(completed_job_names) > 2 else 1)\n", 2400),
    ("c10_no_job_version_check", "C10", "jade/jobs/cluster.py",
     "        if self._job_status.version != current:\n", "        if False:\n", 3000),
    ("c10_no_config_version_check", "C10", "jade/jobs/cluster.py",
     "        if self._config.version != current:\n", "        if False:\n", 3000),
    ("c16_setup_every_round", "C16", "jade/jobs/job_submitter.py",
     "        else:\n            self._handle_submission_groups()\n",
     "        else:\n            self._handle_submission_groups()\n            if self._config.setup_command is not None:\n                check_run_command(self._config.setup_command, env=os.environ.copy())\n", 1200),
    ("c18_suspended_complete", "C18", "jade/hpc/slurm_manager.py",
     '        "COMPLETING": HpcJobStatus.COMPLETE,\n',
     '        "COMPLETING": HpcJobStatus.COMPLETE,\n        "SUSPENDED": HpcJobStatus.COMPLETE,\n        "FAILED": HpcJobStatus.COMPLETE,\n', 2400),
    ("c18_retry_off_by_one", "C18", "jade/utils/run_command.py",
     "    max_tries = num_retries + 1\n", "    max_tries = num_retries + 2\n", 1200),
    ("c19_drop_job_name_env", "C19", "jade/jobs/async_cli_command.py",
     '        env["JADE_JOB_NAME"] = self.name\n', '        env["JADE_JOB_NAME"] = self.name.lower()\n', 1200),
    ("c19_no_posix_split", "C19", "jade/jobs/async_cli_command.py",
     'cmd = shlex.split(self._cli_cmd, posix="win" not in sys.platform)',
     'cmd = self._cli_cmd.split()', 1200),
    ("c03_skip_lock_exists", "C11", "jade/hpc/hpc_submitter.py",
     "        if lock_file.exists():\n", "        if False:\n", 2400),
    ("c13_closure_once", "C13", "jade/cli/resubmit_jobs.py",
     "    for i in range(max_iter):\n        first = len(jobs_to_resubmit)",
     "    for i in range(min(1, max_iter)):\n        first = len(jobs_to_resubmit)", 2400),
    ("c14_no_scancel", "C14", "jade/jobs/job_submitter.py",
     "        for job_id in cluster.job_status.hpc_job_ids:\n            hpc.cancel_job(job_id)\n",
     "        for job_id in cluster.job_status.hpc_job_ids[1:]:\n            hpc.cancel_job(job_id)\n", 2400),
    ("c15_stage_rc_always_zero", "C15", "jade/jobs/pipeline_manager.py",
     "            self._config.stages[stage_num - 2].return_code = return_code\n",
     "            self._config.stages[stage_num - 2].return_code = 0\n", 1200),
    ("c12_missing_dropped", "C12", "jade/jobs/job_submitter.py",
     "            missing_jobs = sorted(all_jobs.difference(finished_jobs))\n",
     "            missing_jobs = sorted(all_jobs.difference(finished_jobs))[1:]\n", 2400),
    ("c20_events_sorted_by_source", "C20", "jade/events.py",
     "            self._events[name].sort(key=lambda x: x.timestamp)",
     "            self._events[name].sort(key=lambda x: x.source)", 1600),
    ("c20_events_skip_dup_timestamp", "C20", "jade/events.py",
     "                    self._events[event.name].append(event)",
     "                    if not any(x.timestamp == event.timestamp and x.source == event.source for x in self._events[event.name]):\n                        self._events[event.name].append(event)", 1600),
    ("c20_stats_average_off", "C20", "jade/resource_monitor.py",
     "                self._summaries[\"average\"][resource_type][stat_name] = val / self._count",
     "                self._summaries[\"average\"][resource_type][stat_name] = val / max(1, self._count - 1)", 1600),
    ("c20_tally_canceled_as_failed", "C20", "jade/jobs/job_submitter.py",
     "            elif result.is_failed():\n                num_failed += 1\n",
     "            elif result.is_failed() or result.is_canceled():\n                num_failed += 1\n", 1200),
    ("c18_show_status_running_only", "C18", "jade/cli/show_status.py",
     "                if status != HpcJobStatus.NONE:\n", "                if status == HpcJobStatus.RUNNING:\n", 4000),
    ("c10_no_two_file_precheck", "C10", "jade/jobs/cluster.py",
     "        self._check_versions(\"update_job_status\")\n", "", 6000),
]


def run_one(mid, prop, path, old, new, runs):
    base = f"/dev/shm/jade-mut-{os.getpid()}-{mid}"
    shutil.rmtree(base, ignore_errors=True)
    os.makedirs(base)
    try:
        shutil.copytree("/repo/jade", os.path.join(base, "jade"), ignore=shutil.ignore_patterns("__pycache__"))
        p = os.path.join(base, path)
        with open(p) as f:
            s = f.read()
        if old not in s:
            return mid, prop, "PATCH-FAILED", 0.0
        with open(p, "w") as f:
            f.write(s.replace(old, new, 1))
        env = dict(os.environ, JADE_VERIF_REPO=base, JV_EVIDENCE_DIR=os.path.join(base, "ev"), JV_REPLAY_DIR=os.path.join(base, "rp"))
        t = time.time()
        r = subprocess.run([sys.executable, "-m", "jv.check", prop, "--tier", "quick", "--runs", str(runs)],
                           cwd=VERIF, env=env, capture_output=True, text=True, timeout=3000)
        dt = time.time() - t
        viol = [ln for ln in r.stdout.splitlines() if ln.startswith("VIOLATION")]
        det = [ln.strip() for ln in r.stdout.splitlines() if ln.startswith("  oracle=")]
        status = "DETECTED" if r.returncode == 1 and viol else f"MISSED(rc={r.returncode})"
        return mid, prop, status + (" " + det[0][:100] if det else (" " + r.stdout[-300:].replace("\n", " | ") if status != "DETECTED" else "")), dt
    finally:
        shutil.rmtree(base, ignore_errors=True)


def main():
    args = [a for a in sys.argv[1:] if not a.startswith("--")]
    if "--list" in sys.argv:
        for m in M:
            print(m[0], m[1])
        return
    sel = [m for m in M if not args or m[0] in args or m[1] in args]
    missed = 0
    for m in sel:
        mid, prop, status, dt = run_one(*m)
        print(f"{mid:32s} {prop} {status} ({dt:.0f}s)", flush=True)
        if not status.startswith("DETECTED"):
            missed += 1
    print(f"mutants: {len(sel)} run, {missed} not detected")


if __name__ == "__main__":
    main()
