"""C14: cancel is final."""
import os

from . import profiles, state
from .oracles import core
from .oracles.base import Monitor
from .scenario import Gen, gen_scenario
from .simslurm import ACTIVE


def gen_cancel(ch, prof):
    sc = gen_scenario(ch, prof)
    g = Gen(ch)
    flags = [] if g.flip(0.7) else ["--no-complete"]
    how = g.weighted([("after_sbatch", 4), ("after_launch", 3), ("after_exit", 3), ("at", 3)])
    u = {"cmd": "cancel-jobs", "flags": flags, "tag": "cancel"}
    if how == "at":
        u["at"] = g.pick([0.5, 3.0, 12.0, 40.0, 100.0, 700.0, 5000.0]) * (0.5 + g.rint(0, 10) / 10.0)
    else:
        kind = {"after_sbatch": "sbatch", "after_launch": "job_launch", "after_exit": "job_exit"}[how]
        u["after"] = {"kind": kind, "n": g.rint(1, 4)}
        if kind == "sbatch":
            u["after"]["ok"] = True
        u["delay"] = g.pick([0.0, 0.0, 0.5, 5.0, 30.0])
    sc["user"] = [x for x in sc.get("user", [])][:2] + [u]
    # commands after the cancel (besides the recovery at quiescence)
    for _ in range(g.rint(0, 3)):
        sc["user"].append({"cmd": g.pick(["try-submit-jobs", "show-status"]), "tag": "after_cancel",
                           "after": {"kind": "scancel", "n": 1} if g.flip(0.5) else {"kind": "user_cancel_exit", "n": 1},
                           "delay": g.pick([0.0, 1.0, 20.0, 400.0])})
    sc["cancel"] = True
    return sc


class C14(Monitor):
    prop = "C14"

    def __init__(self, ctx):
        super().__init__(ctx)
        self.scancels = {}
        self.rows_before = {}
        self.cancel_vps = set()
        self.active_at_cancel = {}
        self.sbatch_after = 0

    def on_record(self, rec):
        seq, vt, kind, vpid, d = rec
        if kind == "scancel":
            self.scancels.setdefault(d.get("id"), []).append((seq, vpid, d.get("ok")))
        elif kind == "exit" and self.w.vprocs[vpid].role == "cancel-jobs":
            self.w.emit("user_cancel_exit", None, rc=d.get("rc"))
        elif kind == "sbatch" and d.get("attempt", 1) == 1:
            sub = self.ctx.sub_for_path(d.get("output"))
            if sub is not None and sub.cancel_seq is not None and sub.epoch == self._cancel_epoch.get(sub.outrel, 0):
                vp = self.w.vprocs[vpid]
                root = vp
                while root.parent is not None and root.parent.role != "node":
                    root = root.parent
                where = "in cancel-jobs' own completion step" if root.role == "cancel-jobs" else f"by a later {root.role}"
                self.sbatch_after += 1
                self.bad("sbatch_after_cancel", "a batch was handed to the HPC after the submission was marked canceled",
                         f"batch {d.get('batch')} ({d.get('jobs')}) at seq {seq} {where}; canceled at seq {sub.cancel_seq}")

    _cancel_epoch = {}

    def on_status(self, sub, o):
        if not o.get("canceled_now"):
            return
        self._cancel_epoch = dict(self._cancel_epoch)
        self._cancel_epoch[sub.outrel] = sub.epoch
        self.w.probe("cancel_marked")
        act = self.w.slurm.active_of(sub.out)
        self.active_at_cancel[sub.outrel] = [(j.id, j.state) for j in act]
        if act:
            self.w.probe("cancel_with_active_batches")
        err_history = any(r[2] in ("lock_timeout", "crash") for r in self.w.history)
        for j in act:
            sc = [x for x in self.scancels.get(j.id, [])]
            if not sc and err_history:
                # an earlier round crashed (e.g. a stall outlasted the lock timeout) between sbatch and
                # the status update: the batch id was never persisted.  An error history is C11's subject.
                self.w.probe("cancel_after_crashed_round")
                continue
            if not sc:
                self.bad("active_batch_not_canceled", "a batch that was active when the submission was canceled was never asked to be canceled",
                         f"batch id {j.id} ({j.state}, batch {j.batch_index}) has no scancel; persisted ids={((o.get('js') or {}).get('hpc_job_ids'))}")
        try:
            self.rows_before[sub.outrel] = [dict(r) for _, r in state.all_rows(sub.out, tolerate=True)]
        except state.Unparsable:
            self.rows_before[sub.outrel] = []
        js = o.get("js") or {}
        if any(j["state"] == "not_submitted" for j in js.get("jobs", [])):
            self.w.probe("cancel_with_unsubmitted_jobs")

    def finish(self):
        w = self.w
        if w.cut:
            return
        for sub in self.ctx.subs.values():
            if sub.cancel_seq is None:
                continue
            lo = sub.last_obs
            complete = bool(lo and lo.get("cfg") and lo["cfg"].get("is_complete"))
            if any(r[2] == "lock_timeout" for r in w.history):
                continue
            if not complete:
                if self.sbatch_after:
                    continue  # consequence of the reported sbatch-after-cancel
                if any(v.killed and v.kill_reason != "reap" and w.in_submitter_subtree(v) for v in w.vprocs):
                    # a node's closing try-submit-jobs was killed by scancel while it held the role:
                    # the documented crash deadlock (C11's subject), not a verdict on cancel
                    w.probe("cancel_killed_a_submitter")
                    continue
                crash = sorted({(v.role, v.crash["type"], v.crash["where"]) for v in w.vprocs if v.crash})
                self.bad("not_complete_after_cancel", "canceled submission did not reach completion by the documented recovery",
                         f"status={core._brief(lo)} crashes={crash}")
                continue
            w.probe("cancel_completed")
            try:
                rj = state.read_json(os.path.join(sub.out, "results.json"))
            except state.Unparsable as e:
                self.bad("summary_unparsable", "results.json does not parse", str(e))
                continue
            if rj is None:
                self.bad("summary_absent", "completed without results.json", sub.outrel)
                continue
            res = {}
            for r in rj.get("results", []):
                res.setdefault(r["name"], []).append(r)
            miss = set(rj.get("missing_jobs", []))
            for r in self.rows_before.get(sub.outrel, []):
                got = res.get(r["name"])
                if not got:
                    self.bad("result_before_cancel_lost", "a result recorded before the cancel is not in the final results",
                             f"{r['name']} ({r['status']} rc={r['return_code']})")
                elif (got[0]["return_code"], got[0]["status"]) != (r["return_code"], r["status"]):
                    self.bad("result_before_cancel_changed", "a result recorded before the cancel changed",
                             f"{r['name']}: {r} -> {got[0]}")
            for n in sub.sc.names:
                if n not in res and n not in miss:
                    self.bad("job_unaccounted", "job neither in results nor in missing_jobs after cancel", n)
                if n in res and len(res[n]) > 1:
                    self.bad("duplicate_result", "more than one result entry for a job", n)
                if n in res and res[n][0]["status"] == "finished" and not sub.launches.get(n):
                    self.bad("fabricated_result", "finished result for a job that never ran", n)


def _extra(ctx, props):
    return [C14(ctx)] if "C14" in props else []


profiles.profile("cancel", mode="hpc", fault_free=True, no_liveness=True, kind="world", gen=gen_cancel,
                 extra_monitors=_extra, max_jobs=8)
profiles.PROFILE_PROPS["cancel"] = ["C14"]
profiles.CHECKS["C14"] = {"profiles": [("cancel", 1.0)], "quick": {"runs": 4000}, "thorough": {"runs": 150000}}
profiles.RULES["C14"] = ("clean scenario + jade cancel-jobs (with / without --no-complete) at a drawn moment (after the n-th accepted "
                         "sbatch / job launch / job exit or at a drawn time) followed by drawn try-submit-jobs / show-status commands "
                         "and the documented recovery; non-trivial = the cancel was marked while batches were active or jobs were "
                         "still unsubmitted")
_old = profiles.nontrivial


def _nontrivial(prop, w):
    if prop == "C14":
        return w.probes.get("cancel_with_active_batches", 0) + w.probes.get("cancel_with_unsubmitted_jobs", 0) >= 1
    return _old(prop, w)


profiles.nontrivial = _nontrivial
