"""C10 component simulation: the public Cluster API under concurrent handles.

Several handles (vprocs) on 2-3 host names execute drawn sequences of load / promote /
demote / update / complete_id / mark_complete / mark_canceled / reload / read against one
output directory.  The workload is protocol-respecting: a handle mutates only while it
believes it is the promoted submitter, and demotes only if it was promoted.

Oracle: linearizability against a single-copy model.  Every operation runs inside one hold
of the cluster lock, so the lock-acquisition order is the linearisation; the model is
stepped at the release and must agree with the return value; a write by a handle whose
copy is out of date must raise a version-mismatch error and leave the files unchanged.

Fault: `crash_write` kills a promoted handle inside an update right before a drawn operation on
the status / version files; an operator removes the dead holder's lock marker after a drawn delay.
From then on the model follows the status files on disk and the oracle is narrowed to the safety
half: operations may fail or be rejected, but a handle whose copy is older than the status file on
disk never gets a write through (JADE writes the version file before the status file for that).
"""
import copy
import json
import os
import shutil

from . import kernel, profiles, seams, state
from .kernel import Chooser
from .scenario import Gen

FILES = ("cluster_config.json", "job_status.json", "config_version.txt", "job_status_version.txt")

OPS = ["load_p", "load", "promote", "demote", "update", "complete_id", "mark_complete", "mark_canceled",
       "reload_jobs", "read", "sleep"]


def gen(ch, prof):
    g = Gen(ch)
    n_jobs = g.rint(2, 5)
    n_handles = g.rint(2, 5)
    hosts = ["hA", "hB", "hC"][: g.rint(2, 3)]
    handles = []
    for i in range(n_handles):
        ops = []
        for _ in range(g.rint(2, 9)):
            ops.append({"op": g.weighted([("load_p", 4), ("load", 2), ("promote", 2), ("demote", 3), ("update", 4),
                                          ("complete_id", 1), ("mark_complete", 1), ("mark_canceled", 1),
                                          ("reload_jobs", 1), ("read", 1), ("sleep", 2), ("rogue_complete_id", 1),
                                          ("takeover", 1), ("prepare_resubmit", 3), ("crash_write", 1),
                                          ("rogue_cfg_write", 1), ("rogue_update", 1)]),
                        "a": g.rint(0, 7), "b": g.rint(0, 7), "d": g.pick([0.0, 0.1, 1.0, 3.0])})
        handles.append({"host": hosts[g.rint(0, len(hosts) - 1)], "ops": ops, "start": g.pick([0.0, 0.0, 0.3, 2.0])})
    if g.flip(0.2):
        # crash focus: one handle is promoted, writes and dies inside a write; the others hold copies
        # loaded at drawn moments before / after and try writes that skip the promotion
        def mk(op, d=0.0):
            return {"op": op, "a": g.rint(0, 7), "b": g.rint(0, 7), "d": d}

        k = g.rint(0, n_handles - 1)
        for i, h in enumerate(handles):
            if i == k:
                h["ops"] = [mk("load_p")] + [mk("update", g.pick([0.0, 0.1])) for _ in range(g.rint(0, 2))] + [mk("crash_write", g.pick([0.0, 0.1, 1.0]))]
                h["start"] = 0.0
            else:
                h["ops"] = ([mk("load", g.pick([0.1, 1.0, 3.0]))] + [mk(g.pick(["rogue_cfg_write", "sleep", "load", "read", "rogue_update"]), g.pick([0.1, 1.0, 3.0]))
                                                                    for _ in range(g.rint(1, 4))]
                            + [mk("rogue_cfg_write", 1.0), mk("load_p"), mk("update"), mk("rogue_cfg_write")])
                h["start"] = g.pick([0.0, 0.05, 0.3])
    env = {"lock_behaviour": g.pick(["break_stale", "never_break"]), "stick": g.pick([0.3, 0.5, 0.7, 0.9]),
           "p_stall": g.pick([0.0, 0.0, 0.01]), "stall_max": g.pick([5.0, 5.0, 5.0, 900.0])}
    # (stall_max 900: a live holder may be slower than the 300 s lock timeout of the waiters, which then
    # give up with filelock.Timeout - the operation did not take place - and must not touch the marker)
    return {"kind": "comp_cluster", "n_jobs": n_jobs, "handles": handles, "creator_keeps_role": g.flip(0.2),
            "operator_heals": g.flip(0.7), "env": env, "jobs": [], "groups": []}


def snapshot(out):
    d = {}
    for f in FILES:
        try:
            with open(os.path.join(out, f), "rb") as fh:
                d[f] = fh.read()
        except OSError:
            d[f] = None
    return d


class Model:
    """Single-copy reference of what the files must contain, derived from the files at the
    last successful write (trusted only after the oracle accepted that write)."""

    def __init__(self, out):
        self.out = out
        self.refresh()

    def refresh(self):
        cfg = state.read_json(os.path.join(self.out, "cluster_config.json"))
        js = state.read_json(os.path.join(self.out, "job_status.json"))
        self.cfg = cfg
        self.js = js
        self.cv = cfg["version"]
        self.jv = js["version"]
        self.submitter = cfg["submitter"]


class Mon:
    def __init__(self, w, out):
        self.w = w
        self.out = out
        self.model = None
        self.before = {}
        self.pending = {}   # vp id -> op descriptor emitted before the call
        self.stale_rejected = 0
        self.refused = 0
        self.slot = {}
        self.dead = False
        self.crashed = False      # a writer was killed inside a write: files may be half-updated
        self.unreadable = False   # ... and at least one of them does not parse any more

    def bad(self, oracle, key, msg):
        self.w.violation("C10", oracle, key, msg)

    def on_record(self, rec):
        seq, vt, kind, vpid, d = rec
        if self.model is None:
            return
        if kind == "lock_acquire" and d["path"].endswith("cluster_config.json.lock"):
            self.before[vpid] = snapshot(self.out)
        elif kind == "lock_release" and d["path"].endswith("cluster_config.json.lock"):
            # linearisation point of the operation this vproc is executing
            if vpid in self.pending and vpid not in self.slot:
                m = self.model
                pre = {"cv": m.cv, "jv": m.jv, "submitter": m.submitter}
                after = snapshot(self.out)
                err = None
                try:
                    m.refresh()
                    self.unreadable = False
                except (state.Unparsable, TypeError, KeyError) as e:
                    err = str(e)
                    if self.crashed:
                        self.unreadable = True
                self.slot[vpid] = {"before": self.before.pop(vpid, None), "after": after, "pre": pre,
                                   "post": {"cv": m.cv, "jv": m.jv, "submitter": m.submitter}, "err": err, "seq": seq}
        elif kind == "kill":
            # a writer died inside its critical section: the model follows the data files (what a new
            # handle would load); rejections and load failures are legal from now on, accepted stale
            # writes are not
            self.pending.pop(vpid, None)
            self.slot.pop(vpid, None)
            self.before.pop(vpid, None)
            self.crashed = True
            try:
                self.model.refresh()
            except (state.Unparsable, TypeError, KeyError):
                self.unreadable = True
        elif kind == "c10_op":
            self.pending[vpid] = d
            self.slot.pop(vpid, None)
        elif kind == "c10_ret":
            self.check(seq, vpid, self.pending.pop(vpid, None), d, self.slot.pop(vpid, None))

    def check(self, seq, vpid, op, ret, slot):
        if op is None:
            return
        exc = ret.get("exc")
        if slot is None and self.crashed:
            return
        if slot is None:
            if exc and exc.startswith("Timeout"):
                self.w.probe("lock_timeout_after_rejection")  # the operation did not take place
            elif op["op"] == "promote" and op.get("copy_submitter") is not None:
                if ret.get("value") or exc:
                    self.bad("promotion_wrong", "promotion result disagrees with the single-copy model",
                             f"handle's copy names submitter {op.get('copy_submitter')!r} but promote returned {ret}")
                self.refused += 1
                self.w.probe("promotion_refused")
            return
        seq = slot["seq"]
        pre, post = slot["pre"], slot["post"]
        before, after = slot["before"], slot["after"]
        name = op["op"]
        h = op["h"]
        cv, jv = op.get("cv"), op.get("jv")
        if self.crashed:
            self._check_after_crash(seq, op, ret, slot)
            return
        if slot["err"]:
            self.bad("unreadable_after_write", "status unreadable after an operation released the lock",
                     f"seq {seq}: {name}: {slot['err']}")
            return
        writes_cfg = name in ("promote", "demote", "update", "mark_complete", "mark_canceled", "takeover", "prepare_resubmit")
        writes_js = name in ("update", "complete_id", "prepare_resubmit")
        if name == "load_p":
            want = pre["submitter"] is None
            if exc:
                self.bad("load_failed", "loading the cluster state raised", f"{exc}")
                return
            if bool(ret["value"]) != want:
                self.bad("promotion_wrong", "promotion result disagrees with the single-copy model",
                         f"seq {seq}: handle {h} on {op['host']} promoted={ret['value']} while submitter was {pre['submitter']!r}")
            if ret["value"]:
                self._written(seq, op, slot, ret.get("mem"))
            else:
                self.refused += 1
                self.w.probe("promotion_refused")
                if before is not None and after != before:
                    self.bad("refused_but_wrote", "a refused promotion changed the files", f"seq {seq}")
            return
        if name in ("load", "read", "reload_jobs"):
            if exc:
                self.bad("load_failed", "loading the cluster state raised", f"{exc}")
            elif before is not None and after != before:
                self.bad("read_wrote", "a read-only operation changed the files", f"seq {seq}: {name}")
            return
        if name == "promote" and op.get("copy_submitter") is not None:
            # the handle's own copy names a submitter: refused without looking at the files
            if ret.get("value") or exc:
                self.bad("promotion_wrong", "promotion result disagrees with the single-copy model",
                         f"seq {seq}: handle's copy names submitter {op.get('copy_submitter')!r} but promote returned {ret}")
            if before is not None and after != before:
                self.bad("refused_but_wrote", "a refused promotion changed the files", f"seq {seq}")
            self.refused += 1
            self.w.probe("promotion_refused")
            return
        stale = (writes_cfg and cv != pre["cv"]) or (writes_js and jv != pre["jv"])
        if stale:
            self.w.probe("stale_handle_rejected" if exc else "stale_handle_accepted")
            if not exc or "VersionMismatch" not in exc:
                self.bad("stale_write_accepted", "a handle with an out-of-date copy wrote the cluster state",
                         f"seq {seq}: {name} by handle {h} with copy versions cfg={cv} jobs={jv}, "
                         f"current cfg={pre['cv']} jobs={pre['jv']}; result={ {k: v for k, v in ret.items() if k != 'mem'} }")
                return
            self.stale_rejected += 1
            if before is not None and after != before:
                diff = [f for f in FILES if before[f] != after[f]]
                self.bad("rejected_but_wrote", "a rejected stale write changed the files on disk",
                         f"seq {seq}: {name} by handle {h} raised {exc} but {diff} changed")
            return
        if exc:
            self.bad("fresh_write_rejected", "an up-to-date handle's write was rejected",
                     f"seq {seq}: {name} by handle {h} (cfg={cv} jobs={jv}, current {pre['cv']}/{pre['jv']}): {exc}")
            return
        if name == "promote":
            want = pre["submitter"] is None
            if bool(ret["value"]) != want:
                self.bad("promotion_wrong", "promotion result disagrees with the single-copy model",
                         f"seq {seq}: handle {h} promote()={ret['value']} while submitter was {pre['submitter']!r}")
            if not ret["value"]:
                return
        self._written(seq, op, slot, ret.get("mem"))

    def _check_after_crash(self, seq, op, ret, slot):
        """A writer was killed between two file writes of one update.  What remains of the contract
        (deliberately narrow): operations may fail or be rejected, but a handle whose copy is older than
        the status file on disk must never get a write through."""
        if self.unreadable or slot["err"]:
            return
        pre = slot["pre"]
        before, after = slot["before"], slot["after"]
        name, exc = op["op"], ret.get("exc")
        cv, jv = op.get("cv"), op.get("jv")
        if name in ("load", "load_p", "read", "reload_jobs") or cv is None:
            return
        if name == "promote" and not exc and not ret.get("value"):
            return  # refused, nothing written
        writes_cfg = name in ("promote", "demote", "update", "mark_complete", "mark_canceled", "takeover", "prepare_resubmit")
        writes_js = name in ("update", "complete_id", "prepare_resubmit")
        stale_cfg = writes_cfg and cv < pre["cv"]
        stale_js = writes_js and jv is not None and jv < pre["jv"]
        if not (stale_cfg or stale_js):
            return
        self.w.probe("stale_after_crash")
        changed = [f for f in FILES if before is not None and before[f] != after[f]]
        mine = [f for f in changed if (f in ("cluster_config.json", "config_version.txt") and stale_cfg)
                or (f in ("job_status.json", "job_status_version.txt") and stale_js)]
        if not exc or mine:
            self.bad("stale_write_accepted", "a handle with an out-of-date copy wrote the cluster state",
                     f"seq {seq}: after a writer was killed inside an update, {name} by handle {op['h']} with copy versions "
                     f"cfg={cv} jobs={jv} (status files on disk: cfg={pre['cv']} jobs={pre['jv']}) "
                     f"{'raised ' + exc if exc else 'was accepted'}; files changed: {changed}")

    def _written(self, seq, op, slot, mem):
        pre, post = slot["pre"], slot["post"]
        before, after = slot["before"], slot["after"]
        out = self.out
        if post["cv"] < pre["cv"] or post["jv"] < pre["jv"]:
            self.bad("version_decreased", "a version number decreased",
                     f"seq {seq}: cfg {pre['cv']}->{post['cv']} jobs {pre['jv']}->{post['jv']}")
        if before is not None:
            if before["cluster_config.json"] != after["cluster_config.json"] and post["cv"] <= pre["cv"]:
                self.bad("version_not_increased", "cluster config changed without a larger version", f"seq {seq}")
            if before["job_status.json"] != after["job_status.json"] and post["jv"] <= pre["jv"]:
                self.bad("version_not_increased", "job status changed without a larger version", f"seq {seq}")
        try:
            cvf = int(after["config_version.txt"].decode().strip())
            jvf = int(after["job_status_version.txt"].decode().strip())
            cfg = json.loads(after["cluster_config.json"])
            js = json.loads(after["job_status.json"])
        except Exception as e:  # noqa: BLE001
            self.bad("unreadable_after_write", "status unreadable after an operation released the lock", f"seq {seq}: {e}")
            return
        if cvf != cfg["version"] or jvf != js["version"]:
            self.bad("version_files", "version files disagree with the status files after a write",
                     f"seq {seq}: {cvf}/{cfg['version']} {jvf}/{js['version']}")
        if mem is not None:
            # an operation that writes the job status only (complete_id) is compared on the job status;
            # its handle's config copy may legitimately be behind (an operator takeover between the
            # call and its turn at the lock), and it must leave the config file alone
            js_only = op["op"] == "complete_id"
            if js_only and before is not None and before["cluster_config.json"] != after["cluster_config.json"]:
                self.bad("disk_differs_from_writer", "files do not hold the state the up-to-date writer wrote",
                         f"seq {seq}: {op['op']} by handle {op['h']} changed cluster_config.json")
            # the job status on disk is compared for operations that write it; a config-only write
            # (promote, demote, mark_*) says nothing about that file (15.3: after an operator takeover the
            # former holder's in-flight job-status-only write may land behind the new holder's back)
            writes_js = op["op"] in ("update", "complete_id", "prepare_resubmit")
            if (not js_only and cfg != mem["cfg"]) or (writes_js and mem.get("js") is not None
                                                      and _norm_js(js) != _norm_js(mem["js"])):
                self.bad("disk_differs_from_writer", "files do not hold the state the up-to-date writer wrote",
                         f"seq {seq}: {op['op']} by handle {op['h']}")


def _norm_js(js):
    d = copy.deepcopy(js)
    for j in d.get("jobs", []):
        j["blocked_by"] = sorted(j.get("blocked_by", []))
        if not isinstance(j.get("state"), str):
            j["state"] = j["state"].value
    return d


def runner(scenario, prof, seed, trace=None, then_generate=False, props=()):
    from . import run
    from .world import SimWorld

    run.prepare_process()
    from jade.jobs.cluster import Cluster
    from jade.models import JobState
    from jade.extensions.generic_command.generic_command_configuration import GenericCommandConfiguration
    from jade.extensions.generic_command.generic_command_parameters import GenericCommandParameters
    from jade.models import SubmissionGroup, SubmitterParams

    run._RUN_N += 1
    root = os.path.join(run.scratch_base(), f"r{run._RUN_N % 1000000:06d}")
    shutil.rmtree(root, ignore_errors=True)
    os.makedirs(root)
    ch = Chooser(f"run/{seed}", trace=trace, then_generate=then_generate)
    w = SimWorld(scenario, ch, root, props=props, max_steps=20000)
    out = w.output
    os.makedirs(out)
    try:
        mon = Mon(w, out)
        w.monitors = [mon]
        kernel.W = w
        config = GenericCommandConfiguration()
        config.append_submission_group(SubmissionGroup(name="default", submitter_params=SubmitterParams(
            hpc_config={"hpc_type": "local", "hpc": {}})))
        for i in range(scenario["n_jobs"]):
            config.add_job(GenericCommandParameters(command=f"echo {i}", name=f"j{i}",
                                                    blocked_by={f"j{i - 1}"} if i and i % 2 else set()))

        def creator(vp):
            c = Cluster.create(out, config)
            if not scenario.get("creator_keeps_role"):
                c.demote_from_submitter()
            return 0

        cvp = w.spawn("creator", creator, "hA", w.base_env("hA"))

        def start_handles():
            mon.model = Model(out)
            for i, hs in enumerate(scenario["handles"]):
                w.spawn("handle", handle(i, hs), hs["host"], w.base_env(hs["host"]))

        def mem_of(c):
            mem = {"cfg": json.loads(c.config.json())}
            if c.job_status is not None:
                mem["js"] = json.loads(c.job_status.json())
            return mem

        def handle(idx, hs):
            def target(vp):
                if hs["start"]:
                    w.sleep(vp, hs["start"])
                c = None
                promoted = False
                for o in hs["ops"]:
                    if mon.dead and not scenario.get("operator_heals"):
                        return 0
                    name = o["op"]
                    if name == "sleep":
                        w.sleep(vp, o["d"] or 0.1)
                        continue
                    if c is None and name not in ("load", "load_p"):
                        name = "load_p" if o["a"] % 2 else "load"
                    # protocol: mutate only while promoted; demote only if promoted
                    if name in ("update", "complete_id", "mark_complete", "mark_canceled", "demote", "prepare_resubmit", "crash_write") and not promoted:
                        name = "promote" if c is not None and o["b"] % 2 else "load_p"
                    if name in ("load_p", "promote") and promoted:
                        name = "update"
                    if name == "takeover":
                        # an operator, believing the submitter dead (it is only stalled), clears the
                        # role with a proper versioned write from a fresh handle.  The former holder's
                        # copy is now out of date although it still believes it is promoted: its next
                        # write must be rejected.
                        if promoted or mon.model is None or mon.model.submitter is None:
                            name = "load"
                        else:
                            desc = {"op": "takeover", "h": idx, "host": vp.host}
                            try:
                                c2, _ = Cluster.deserialize(out, deserialize_jobs=True)
                                desc.update(cv=c2.config.version, jv=c2.job_status.version, copy_submitter=c2.config.submitter)
                                c2.config.submitter = None
                                w.emit("c10_op", vp, **desc)
                                c2.serialize("operator takeover")
                                w.emit("c10_ret", vp, value=None, mem={"cfg": json.loads(c2.config.json())})
                                w.probe("operator_takeover")
                                taken_over["any"] = True
                            except kernel.SimKilled:
                                raise
                            except Exception as e:  # noqa: BLE001
                                w.emit("c10_ret", vp, exc=f"{type(e).__name__}: {e}"[:200])
                                try:
                                    lp = os.path.join(out, "cluster_config.json.lock")
                                    if os.path.getsize(lp) == 0:
                                        seams.REAL["os.unlink"](lp)
                                        w.wake_lock_waiters(lp)
                                except OSError:
                                    pass
                            continue
                    if name == "complete_id" and taken_over["any"]:
                        # After a takeover a former holder is out of date in the config only; JADE
                        # versions the two files independently, so its job-status-only write would be
                        # accepted.  That is a consequence of the operator's intervention (outside the
                        # protocol), not of the version check: such a handle only attempts writes that
                        # go through the config check.
                        name = "update"
                    if name == "rogue_complete_id":
                        # second line of defence: a write attempted with an out-of-date job status
                        # (by a caller that skipped promotion) must still be rejected
                        # (attempted only when the copy IS out of date, so that on a correct
                        # tree it is always rejected and leaves no trace)
                        if (c is None or c.job_status is None or not c.job_status.hpc_job_ids or promoted
                                or mon.model is None or mon.model.jv == c.job_status.version):
                            name = "load"
                        else:
                            name = "complete_id"
                            w.probe("rogue_stale_write_attempted")
                    if name == "rogue_cfg_write":
                        # the same for the config: a caller that skipped promotion writes from a copy that is
                        # older than the config on disk (attempted only then, so that a correct tree always
                        # rejects it and it leaves no trace)
                        if (c is None or promoted or mon.model is None or mon.unreadable
                                or mon.model.cv == c.config.version):
                            name = "load"
                        else:
                            name = "mark_canceled"
                            w.probe("rogue_stale_cfg_write_attempted")
                    if name == "rogue_update":
                        # ... and for a two-file write from a copy that is out of date in the job status only
                        # (another handle's complete_hpc_job_id since): rejected, and *neither* file changes
                        if (c is None or promoted or c.job_status is None or mon.model is None or mon.unreadable
                                or mon.crashed or mon.model.cv != c.config.version
                                or mon.model.jv == c.job_status.version):
                            name = "load"
                        else:
                            name = "update"
                            w.probe("rogue_half_stale_update_attempted")
                    if name == "crash_write":
                        # the promoted handle dies (SIGKILL, node loss) inside its next write, right before
                        # the k-th operation on the status / version files
                        name = ("update", "demote", "mark_canceled")[o["a"] % 3]
                        vp.tags["die_in"] = 1 + o["b"] % (8 if name == "update" else 4)
                        vp.tags["heal_delay"] = 0.05 + 100.0 * o["d"]
                    desc = {"op": name, "h": idx, "host": vp.host}
                    if c is not None:
                        desc.update(cv=c.config.version, jv=c.job_status.version if c.job_status is not None else None,
                                    copy_submitter=c.config.submitter)
                    ret = {}
                    try:
                        if name in ("load", "load_p"):
                            w.emit("c10_op", vp, **desc)
                            c2, p = Cluster.deserialize(out, try_promote_to_submitter=(name == "load_p"),
                                                        deserialize_jobs=True)
                            c = c2
                            promoted = bool(p)
                            ret = {"value": bool(p)}
                            if p:
                                ret["mem"] = mem_of(c)
                        elif name == "promote":
                            w.emit("c10_op", vp, **desc)
                            p = c.promote_to_submitter()
                            promoted = bool(p)
                            ret = {"value": bool(p)}
                            if p:
                                ret["mem"] = mem_of(c)
                        elif name == "demote":
                            w.emit("c10_op", vp, **desc)
                            c.demote_from_submitter()
                            promoted = False
                            ret = {"value": None, "mem": mem_of(c)}
                        elif name == "update":
                            if c.job_status is None:
                                c.deserialize_jobs()
                            desc["jv"] = c.job_status.version
                            jobs = list(c.iter_jobs())
                            ns = [j for j in jobs if j.state == JobState.NOT_SUBMITTED]
                            sb = [j for j in jobs if j.state == JobState.SUBMITTED]
                            k = min(len(ns), o["a"] % 3)
                            to_submit = ns[:k]
                            done = {j.name for j in sb[: o["b"] % 3]}
                            ids = sorted(set(c.job_status.hpc_job_ids) | ({f"9{idx}{o['a']}"} if to_submit else set()))
                            w.emit("c10_op", vp, **desc)
                            c.update_job_status(to_submit, [], [], done, ids, c.job_status.batch_index + (1 if to_submit else 0))
                            ret = {"value": None, "mem": mem_of(c)}
                        elif name == "complete_id":
                            if c.job_status is None or not c.job_status.hpc_job_ids:
                                continue
                            desc["jv"] = c.job_status.version
                            w.emit("c10_op", vp, **desc)
                            c.complete_hpc_job_id(c.job_status.hpc_job_ids[0])
                            ret = {"value": None, "mem": mem_of(c)}
                        elif name == "prepare_resubmit":
                            # what resubmit-jobs does after its promotion: reset a selection of jobs, both files
                            # rewritten in one lock hold
                            if c.job_status is None:
                                c.deserialize_jobs()
                            if not c.config.is_complete:
                                name = desc["op"] = "mark_complete"
                                w.emit("c10_op", vp, **desc)
                                c.mark_complete()
                                ret = {"value": None, "mem": mem_of(c)}
                            else:
                                desc["jv"] = c.job_status.version
                                names = [j.name for j in c.iter_jobs()]
                                sel = set(names[: 1 + o["a"] % len(names)])
                                w.emit("c10_op", vp, **desc)
                                c.prepare_for_resubmission(sel, {})
                                w.probe("prepare_resubmit_op")
                                ret = {"value": None, "mem": mem_of(c)}
                        elif name == "mark_complete":
                            if c.config.is_complete:
                                continue
                            w.emit("c10_op", vp, **desc)
                            c.mark_complete()
                            ret = {"value": None, "mem": mem_of(c)}
                        elif name == "mark_canceled":
                            w.emit("c10_op", vp, **desc)
                            c.mark_canceled()
                            ret = {"value": None, "mem": mem_of(c)}
                        elif name == "reload_jobs":
                            w.emit("c10_op", vp, **desc)
                            c.deserialize_jobs()
                            ret = {"value": None}
                        elif name == "read":
                            w.emit("c10_op", vp, **desc)
                            c.get_status_summary(include_jobs=c.job_status is not None)
                            ret = {"value": None}
                    except kernel.SimKilled:
                        raise
                    except Exception as e:  # noqa: BLE001 the API's documented errors
                        ret = {"exc": f"{type(e).__name__}: {e}"[:200]}
                        c = None
                        promoted = False
                        w.emit("c10_ret", vp, **ret)
                        if scenario.get("operator_heals"):
                            # a simulated operator removes the deliberate deadlock marker
                            # (atomic, harness-side: check and removal at one instant, so that the
                            # operator can never remove a live holder's marker)
                            try:
                                lp = os.path.join(out, "cluster_config.json.lock")
                                if os.path.getsize(lp) == 0:  # only the deliberate empty marker
                                    seams.REAL["os.unlink"](lp)
                                    w.emit("operator_heal", vp, path=w.rel(lp))
                                    w.wake_lock_waiters(lp)
                            except OSError:
                                pass
                            mon.dead = False
                            continue
                        return 1
                    vp.tags.pop("die_in", None)
                    w.emit("c10_ret", vp, **ret)
                    if o["d"]:
                        w.sleep(vp, o["d"])
                if promoted and c is not None:
                    desc = {"op": "demote", "h": idx, "host": vp.host, "cv": c.config.version,
                            "jv": c.job_status.version if c.job_status is not None else None,
                            "copy_submitter": c.config.submitter}
                    try:
                        w.emit("c10_op", vp, **desc)
                        c.demote_from_submitter()
                        w.emit("c10_ret", vp, value=None, mem=mem_of(c))
                    except kernel.SimKilled:
                        raise
                    except Exception as e:  # noqa: BLE001
                        w.emit("c10_ret", vp, exc=f"{type(e).__name__}: {e}"[:200])
                return 0

            return target

        started = {"v": False}
        taken_over = {"any": False}

        def quiescent():
            if not started["v"]:
                started["v"] = True
                start_handles()
                return True
            return False

        w.quiescent_hook = quiescent
        base_hook = w.yield_hook
        lp = os.path.join(out, "cluster_config.json.lock")

        def read_marker():
            try:
                with seams.REAL["open"](lp, "rb") as fh:
                    return fh.read()
            except OSError:
                return None

        def hook(vp, kind, detail):
            if base_hook is not None:
                base_hook(vp, kind, detail)
            n = vp.tags.get("die_in")
            if n is None or not kind.startswith("fs:") or os.path.basename(str(detail)) not in FILES:
                return
            if n > 1:
                vp.tags["die_in"] = n - 1
                return
            vp.tags.pop("die_in")
            w.fault_fired("kill_in_write")
            w.emit("fault", vp, fault="kill_in_write", detail=[kind, w.rel(str(detail))])
            marker = read_marker()

            def operator():
                # the operator removes the dead holder's marker (and nobody else's)
                if marker is not None and read_marker() == marker:
                    seams.REAL["os.unlink"](lp)
                    w.emit("operator_heal", None, path=w.rel(lp), dead_holder=True)
                    w.wake_lock_waiters(lp)

            w.after(vp.tags.get("heal_delay", 1.0), operator, "operator")
            w.request_kill(vp, "fault:kill_in_write", True)

        w.yield_hook = hook
        try:
            w.run()
        finally:
            kernel.W = None
        w.extra_result = {"counts": {"stale_rejected": mon.stale_rejected, "promotion_refused": mon.refused}}
    finally:
        shutil.rmtree(root, ignore_errors=True)
    return w


def candidates(sc):
    out = []
    if len(sc["handles"]) > 1:
        for i in range(len(sc["handles"])):
            c = copy.deepcopy(sc)
            del c["handles"][i]
            out.append((f"drop handle {i}", c))
    for i, h in enumerate(sc["handles"]):
        for k in range(len(h["ops"]) - 1, -1, -1):
            if len(h["ops"]) > 1:
                c = copy.deepcopy(sc)
                del c["handles"][i]["ops"][k]
                out.append((f"drop op {i}.{k}", c))
        for k, o in enumerate(h["ops"]):
            if o["d"]:
                c = copy.deepcopy(sc)
                c["handles"][i]["ops"][k]["d"] = 0.0
                out.append((f"d0 {i}.{k}", c))
        if h["start"]:
            c = copy.deepcopy(sc)
            c["handles"][i]["start"] = 0.0
            out.append((f"start0 {i}", c))
    if sc["n_jobs"] > 2:
        c = copy.deepcopy(sc)
        c["n_jobs"] -= 1
        out.append(("fewer jobs", c))
    if sc["env"].get("p_stall"):
        c = copy.deepcopy(sc)
        c["env"]["p_stall"] = 0.0
        out.append(("no stall", c))
    return out


profiles.profile("comp_cluster", kind="component", gen=gen, runner=runner, shrink_candidates=candidates, fault_free=True)
profiles.CHECKS["C10"] = {"profiles": [("comp_cluster", 0.8), ("clean_hpc", 0.2)], "quick": {"runs": 6000},
                          "thorough": {"runs": 400000}}
profiles.PROFILE_PROPS["comp_cluster"] = ["C10"]
profiles.RULES["C10"] = ("component simulation: 2-5 handles on 2-3 host names (two may share one) run drawn sequences of "
                         "load/promote/demote/update/complete_id/mark_complete/mark_canceled/reload/read on the public "
                         "Cluster API, checked operation by operation against a single-copy model in lock-acquisition "
                         "order, plus world runs with a role-owner monitor; non-trivial = at least one refused promotion "
                         "or rejected stale write (component) / >= 2 role hand-overs (world)")
_old = profiles.nontrivial


def _nontrivial(prop, w):
    if prop == "C10":
        if w.scenario.get("kind") == "comp_cluster":
            return w.probes.get("promotion_refused", 0) + w.probes.get("stale_handle_rejected", 0) >= 1
        return w.probes.get("role_handover", 0) >= 2
    return _old(prop, w)


profiles.nontrivial = _nontrivial
