"""Fault profiles: C12 (lost batches) and C11 (submitter dies or errors mid-round),
including the kill-point sweep (pilot run + one run per fault site)."""
import collections
import copy
import os

from . import profiles, state
from .kernel import Chooser
from .oracles import core
from .oracles.base import Monitor
from .scenario import Gen, gen_scenario


# =========================================================================== C12
def gen_lost(ch, prof):
    sc = gen_scenario(ch, prof)
    g = Gen(ch)
    p = {}
    kinds = []
    which = g.weighted([("sbatch", 3), ("kill_node", 4), ("both", 2), ("walltime", 1), ("cycle_only", 1)])
    if which in ("sbatch", "both"):
        p["sbatch_fail"] = g.pick([0.15, 0.4, 1.0])
    if which in ("kill_node", "both"):
        p["kill_node"] = g.pick([0.003, 0.01, 0.03])
    plan = {"p": p, "budget": g.weighted([(1, 7), (2, 2), (3, 1)]) if which != "sbatch" else g.rint(1, 6),
            "modes_sbatch_fail": ["all", "permanent", "garbage", "k"], "kinds": kinds}
    sc["faults"] = plan
    if which == "walltime":
        sc["env"]["enforce_walltime"] = True
        for gr in sc["groups"]:
            gr["params"]["hpc_config"]["hpc"]["walltime"] = "0:01:00"
            gr["wall_min"] = 1
        for j in sc["jobs"]:
            if j.get("est") is not None:
                j["est"] = 1
            j["dur"] = g.pick([5.0, 20.0, 50.0, 70.0, 200.0])
    sc["env"]["p_stall"] = 0.0
    if g.flip(0.3):
        # a slow status query: batches finish (or are lost) inside another round
        sc["env"]["lat"] = dict(sc["env"].get("lat") or {}, squeue=g.pick([30.0, 120.0]))
        n = len(sc["jobs"])
        for _ in range(g.rint(1, 3)):
            sc["user"] = sc.get("user", []) + [{"cmd": "try-submit-jobs", "after": {"kind": "job_exit", "n": g.rint(1, max(1, n))},
                                               "delay": g.pick([0.0, 0.1, 2.0])}]
    return sc


class C12(Monitor):
    prop = "C12"

    def __init__(self, ctx):
        super().__init__(ctx)
        self.on_disk = {}       # (outrel, name) -> first seq a row with that name was on disk
        self.exits = {}
        self.lost_batches = 0
        self.tally = core.C20(ctx)
        self.tally.prop = "C12"
        self.tally.bad = lambda oracle, key, msg, prop=None: self.bad(oracle, key, msg)

    def on_record(self, rec):
        seq, vt, kind, vpid, d = rec
        if kind == "job_exit":
            self.exits.setdefault(d["name"], []).append(d)
        elif kind == "fs" and d.get("op") == "write" and "/results/results_batch_" in d.get("path", ""):
            sub = self.ctx.sub_for_path(d["path"])
            if sub is None:
                return
            try:
                rows = state.read_rows(os.path.join(self.w.shared_root, d["path"])) or []
            except state.Unparsable:
                return
            for r in rows:
                self.on_disk.setdefault((sub.outrel, r["name"]), (seq, dict(r)))
        elif kind == "sbatch" and not d.get("ok") and d.get("attempt", 1) == 1:
            self.lost_batches += 1

    def finish(self):
        ctx = self.ctx
        w = self.w
        if w.cut:
            return
        for sub in ctx.subs.values():
            if sub.sc.mode != "hpc" or not sub.monitoring:
                continue
            lo = sub.last_obs
            complete = bool(lo and lo.get("cfg") and lo["cfg"].get("is_complete"))
            stale_lock = self._killed_lock_holder(sub)
            if not complete:
                if any(v.killed and v.kill_reason != "reap" and w.in_submitter_subtree(v) for v in w.vprocs):
                    # the walltime / node failure hit a node while its closing try-submit-jobs held
                    # the role: a killed submitter is C11's subject, not C12's
                    w.probe("node_killed_while_submitter")
                    continue
                if stale_lock:
                    self.bad("stuck_on_killed_holder_lock",
                             "collector times out on a node results lock whose holder was killed",
                             f"{stale_lock}; submission never completes")
                else:
                    crash = sorted({(v.role, v.crash["type"], v.crash["where"]) for v in w.vprocs if v.crash})
                    self.bad("not_complete", "submission did not complete after the documented recovery",
                             f"{len(getattr(w.driver, 'recoveries', []))} recovery commands; status={core._brief(lo)}; crashes={crash}")
                continue
            try:
                rj = state.read_json(os.path.join(sub.out, "results.json"))
            except state.Unparsable as e:
                self.bad("summary_unparsable", "results.json does not parse", str(e))
                continue
            if rj is None:
                self.bad("summary_absent", "completed without results.json", sub.outrel)
                continue
            self.w.probe("c12_completed")
            self.tally._tally(sub, rj)
            res = {}
            for r in rj.get("results", []):
                res.setdefault(r["name"], []).append(r)
            miss = set(rj.get("missing_jobs", []))
            sc = sub.sc
            for n, lst in res.items():
                if len(lst) > 1:
                    self.bad("duplicate_result", "more than one result entry for a job", f"{n} x{len(lst)}")
            final_cls = {n: state.classify(lst[0]) for n, lst in res.items()}
            for n in sc.names:
                launched = len(sub.launches.get(n, []))
                ex = self.exits.get(n, [])
                if n in res:
                    r = res[n][0]
                    c = final_cls[n]
                    if c in ("successful", "failed"):
                        if not ex:
                            self.bad("fabricated_result", "finished result for a job whose process never exited",
                                     f"{n}: {r} (launches={launched})")
                        elif r["return_code"] != ex[-1]["rc"]:
                            self.bad("wrong_return_code", "result carries another exit code", f"{n}: {r['return_code']} vs {ex[-1]['rc']}")
                    elif c == "canceled":
                        bs = sc.blockers.get(n, [])
                        just = sc.spec[n].get("cancel") and any(final_cls.get(b) in ("failed", "canceled") for b in bs)
                        if not just:
                            self.bad("unjustified_cancel", "canceled result without a failed or canceled blocker",
                                     f"{n}: blockers {[(b, final_cls.get(b, 'missing')) for b in bs]} flag={sc.spec[n].get('cancel')}")
                        if launched:
                            self.bad("canceled_but_ran", "canceled job's command was started", f"{n}")
                    else:
                        self.bad("odd_result", "result entry in none of successful/failed/canceled", f"{n}: {r}")
                else:
                    if n not in miss:
                        self.bad("dropped_job", "job neither in results nor in missing_jobs", n)
                    k = (sub.outrel, n)
                    if k in self.on_disk:
                        self.bad("finished_result_lost", "a job whose result row was on disk is reported missing",
                                 f"{n}: row written at seq {self.on_disk[k][0]}")
                # a job that waits for a missing job is never started
                bs = sc.blockers.get(n, [])
                mb = [b for b in bs if b not in res]
                if mb and launched:
                    self.bad("started_despite_missing_blocker", "job started although a blocking job has no outcome",
                             f"{n}: blockers without outcome {mb}")
                if mb and n in res and final_cls[n] != "canceled":
                    self.bad("result_despite_missing_blocker", "job has a finished result although a blocking job is missing",
                             f"{n}: {final_cls[n]} with missing blockers {mb}")

    def _killed_lock_holder(self, sub):
        import glob

        out = []
        for p in glob.glob(os.path.join(sub.out, "results", "*.lock")) + glob.glob(os.path.join(sub.out, "*.csv.lock")):
            try:
                with open(p) as f:
                    lines = f.read().split()
                pid, host = int(lines[0]), lines[1]
            except (OSError, ValueError, IndexError):
                continue
            vp = self.w.pids.get((host, pid))
            if vp is not None and vp.killed:
                out.append(f"{self.w.rel(p)} held by killed {vp.role} on {host}")
        return out


def _extra_c12(ctx, props):
    mons = []
    if "C12" in props:
        mons.append(C12(ctx))
        mons.append(core.C02(ctx, prop="C12"))
    return mons


profiles.profile("lost_batch", mode="hpc", fault_free=False, kind="world", gen=gen_lost, extra_monitors=_extra_c12,
                 cycles=True, max_jobs=8, user_cmds=True)
profiles.PROFILE_PROPS["lost_batch"] = ["C12"]


# =========================================================================== C11
SUBMITTER_FAULTS = ["kill_submitter", "sbatch_fail", "squeue_fail", "lock_timeout", "write_fail"]


def gen_crash(ch, prof):
    sc = gen_scenario(ch, prof)
    g = Gen(ch)
    sc["env"]["p_stall"] = 0.0
    sc["env"]["lock_behaviour"] = g.pick(["never_break", "break_stale"])
    if g.flip(0.5):
        # rounds that hand several batches to the HPC: more in-flight state per round
        bs = g.pick([1, 1, 2])
        for grp in sc["groups"]:
            if not grp["params"]["time_based_batching"]:
                grp["params"]["per_node_batch_size"] = bs
    mode = prof.get("fault_mode", "random")
    if mode == "random":
        p = {}
        for k, v in (("kill_submitter", g.pick([0.002, 0.006, 0.02])), ("sbatch_fail", g.pick([0.0, 0.2])),
                     ("squeue_fail", g.pick([0.0, 0.1])), ("lock_timeout", g.pick([0.0, 0.01])),
                     ("write_fail", g.pick([0.0, 0.005]))):
            if v:
                p[k] = v
        sc["faults"] = {"p": p, "budget": g.weighted([(1, 7), (2, 2.5), (3, 0.5)]),
                        "modes_sbatch_fail": ["all", "permanent", "garbage"], "modes_squeue_fail": ["all", "k"]}
    else:
        sc["faults"] = {"kinds": list(SUBMITTER_FAULTS), "sites": []}
    return sc


class C11Durability(Monitor):
    """Every result row that reached the disk stays on disk in some results file, at every
    instant at which no results lock is held and at the end.  A file torn by an injected
    write failure need not parse: there the row's bytes (its line) must still be present."""

    prop = "C11"

    def __init__(self, ctx):
        super().__init__(ctx)
        self.rows = {}   # (outrel, key) -> (seq, raw line)
        self.held = set()

    def on_record(self, rec):
        seq, vt, kind, vpid, d = rec
        if kind == "fs" and d.get("op") == "write" and ("/results/results_batch_" in d.get("path", "")):
            sub = self.ctx.sub_for_path(d["path"])
            if sub is None:
                return
            path = os.path.join(self.w.shared_root, d["path"])
            try:
                rows = state.read_rows(path) or []
                with open(path) as f:
                    lines = f.read().split("\n")
            except (state.Unparsable, OSError):
                return
            for i, r in enumerate(rows):
                raw = lines[i + 1] if i + 1 < len(lines) else None
                self.rows.setdefault((sub.outrel, _rk(r)), (seq, raw))
        elif kind == "lock_acquire" and d["path"].endswith(".csv.lock"):
            self.held.add(d["path"])
        elif kind == "lock_release" and d["path"].endswith(".csv.lock"):
            self.held.discard(d["path"])
            if not self.held:
                self.check(seq)
        elif kind == "kill":
            # a killed holder never releases: forget its holds for the purpose of "no lock held"
            self.held.clear()

    def check(self, seq):
        for sub in self.ctx.subs.values():
            if sub.epoch != 0:
                continue
            have = set()
            raw = []
            # after an injected write failure a file may be torn (even so that it still parses,
            # with a fragment glued to the next row's name): there the row's bytes count
            torn = any(f["kind"] == "write_fail" for f in self.w.faults.fired)
            for p in state.node_result_files(sub.out) + [os.path.join(sub.out, "processed_results.csv")]:
                unparsable = False
                try:
                    for r in state.read_rows(p) or []:
                        have.add(_rk(r))
                except state.Unparsable:
                    unparsable = True
                if unparsable or torn:
                    try:
                        with open(p) as f:
                            raw.append(f.read())
                    except OSError:
                        pass
            for (outrel, k), (s, line) in self.rows.items():
                if outrel != sub.outrel or k in have:
                    continue
                if line and any((line + "\n") in t for t in raw):
                    self.w.probe("row_in_torn_file")
                    continue
                self.bad("result_lost", "a result that was on disk is in no results file any more",
                         f"seq {seq}: {k} (written at seq {s})")
                return

    def finish(self):
        self.check(self.w.seq)


def _rk(r):
    return (r["name"], r["return_code"], r["status"], r["exec_time_s"], r["completion_time"], r["hpc_job_id"])


class C11Transient(Monitor):
    """After a transient failure of the status query the next round proceeds normally."""

    prop = "C11"

    def finish(self):
        w = self.w
        fired = w.faults.fired
        if w.cut or not fired or any(f["kind"] != "squeue_fail" for f in fired):
            return
        if any(r[2] == "lock_timeout" for r in w.history):
            return
        w.probe("only_squeue_fault")
        for sub in self.ctx.subs.values():
            if sub.sc.mode != "hpc" or not sub.monitoring:
                continue
            lo = sub.last_obs
            if not (lo and lo.get("cfg") and lo["cfg"].get("is_complete")):
                crash = sorted({(v.role, v.crash["type"], v.crash["where"]) for v in w.vprocs if v.crash})
                self.bad("stuck_after_squeue_failure", "submission did not complete after a transient status-query failure",
                         f"status={core._brief(lo)} crashes={crash} faults={[(f['kind'], f.get('mode'), f.get('k')) for f in fired]}")
                continue
            core.C03C04(self.ctx, {"C03"}).check(sub)
        # relabel C03 findings of this narrow configuration as C11
        for v in w.violations:
            if v["property"] == "C03":
                v["property"] = "C11"
                v["oracle"] = "after_squeue_failure_" + v["oracle"]


def _extra_c11(ctx, props):
    mons = []
    if "C11" in props:
        mons.append(core.C01(ctx, prop="C11", file_level=False))
        mons.append(core.C02(ctx, prop="C11"))
        mons.append(C11Durability(ctx))
        mons.append(C11Transient(ctx))
    return mons


profiles.profile("crash_random", mode="hpc", fault_free=False, kind="world", gen=gen_crash, extra_monitors=_extra_c11,
                 max_jobs=8, max_recovery=3, fault_mode="random")
profiles.profile("crash_sweep", mode="hpc", fault_free=False, kind="world", gen=gen_crash, extra_monitors=_extra_c11,
                 max_jobs=6, max_recovery=3, fault_mode="sweep")
profiles.PROFILE_PROPS["crash_random"] = ["C11"]
profiles.PROFILE_PROPS["crash_sweep"] = ["C11"]


def _sample(rng, n, lim, hot):
    """lim of the n sites: up to half of them from the in-flight ('hot') sites, the rest uniformly."""
    idx = list(range(n))
    if n <= lim:
        return idx
    hot = [h for h in (hot or []) if h < n]
    pick = set(rng.sample(hot, min(len(hot), lim // 2)))
    rest = [i for i in idx if i not in pick]
    pick |= set(rng.sample(rest, lim - len(pick)))
    return sorted(pick)


def sweep_plans(pilot_counters, quick, rng, hot=None):
    """Fault plans for the sites of one pilot execution."""
    hot = hot or {}
    plans = []
    nk = pilot_counters.get("kill_submitter", 0)
    ks = list(range(nk))
    if quick and nk > 10:
        ks = _sample(rng, nk, 10, hot.get("kill_submitter"))
    for k in ks:
        plans.append({"kind": "kill_submitter", "n": k, "scope": "node" if rng.random() < 0.25 else "command"})
    for kind, modes in (("sbatch_fail", ["all", "permanent", "garbage"]), ("squeue_fail", ["all", "k"]),
                        ("lock_timeout", [None]), ("write_fail", [None])):
        n = pilot_counters.get(kind, 0)
        lim = 5 if quick else 40
        idx = _sample(rng, n, lim, hot.get(kind))
        for k in idx:
            for m in (modes if not quick else [rng.choice(modes)]):
                s = {"kind": kind, "n": k}
                if m:
                    s["mode"] = m
                if kind == "write_fail":
                    s["keep"] = rng.randrange(3)
                plans.append(s)
    return plans


profiles.CHECKS["C12"] = {"profiles": [("lost_batch", 1.0)], "quick": {"runs": 4000}, "thorough": {"runs": 150000}}
profiles.CHECKS["C11"] = {"profiles": [("crash_random", 1.0)], "sweep": "crash_sweep",
                          "quick": {"runs": 2000, "pilots": 110}, "thorough": {"runs": 40000, "pilots": 400}}
profiles.LEVELS["C11"] = "fault_enumeration"
profiles.LEVELS["C12"] = "fault_enumeration"
profiles.RULES["C12"] = ("seeded scenario + fault plan: sbatch failures (all attempts / permanent / unparsable response / k transient) "
                         "for a drawn subset of batches, node kills at seeded yield points of node process trees (before, between and "
                         "inside job handling, inside result appends), walltime TIMEOUT, dependency cycles; documented recovery after "
                         "the dead batches were purged; non-trivial = a fault actually fired or the configuration has a cycle, and the "
                         "run reached completion so that the accounting oracle was evaluated")
profiles.RULES["C11"] = ("fault-free pilot executions; every yield point of every submitter round (lock operation, external command, "
                         "file mutation) is a kill site and every sbatch / squeue / lock acquisition / write flush of a round an "
                         "error site; quick: a seeded sample of the sites of each pilot, thorough: all sites; each site run replays the "
                         "pilot exactly up to the site, injects one fault and continues under a seeded schedule with up to 3 further user "
                         "recovery commands, under both lock behaviours; plus random multi-fault runs; non-trivial = the fault fired "
                         "inside a submitter round; distinct = distinct history digest")
_old = profiles.nontrivial


def _nontrivial(prop, w):
    if prop == "C12":
        return (bool(w.faults_fired) or bool(w.scenario.get("has_cycle"))) and w.probes.get("c12_completed", 0) >= 1
    if prop == "C11":
        return any(k != "stall" for k in w.faults_fired)
    return _old(prop, w)


profiles.nontrivial = _nontrivial


# =========================================================================== C06 under scheduler-interface faults
def gen_flaky_scheduler(ch, prof):
    """The limits of C06 hold 'at every instant': also in rounds whose status query or submission
    fails (the round must not take a failed query for 'nothing is active')."""
    sc = gen_scenario(ch, prof)
    g = Gen(ch)
    sc["env"]["p_stall"] = 0.0
    mn = g.pick([1, 1, 2, 2, 3])
    for grp in sc["groups"]:
        grp["params"]["max_nodes"] = mn
        if not grp["params"]["time_based_batching"]:
            grp["params"]["per_node_batch_size"] = g.pick([1, 1, 2, 3])
    p = {"squeue_fail": g.pick([0.15, 0.3, 0.6])}
    if g.flip(0.3):
        p["sbatch_fail"] = g.pick([0.1, 0.3])
    sc["faults"] = {"p": p, "budget": g.rint(1, 4), "modes_sbatch_fail": ["all", "permanent", "garbage"],
                    "modes_squeue_fail": ["all", "all", "k"]}
    return sc


profiles.profile("flaky_scheduler", mode="hpc", fault_free=False, kind="world", gen=gen_flaky_scheduler, max_jobs=8, min_jobs=3,
                 max_recovery=4)
profiles.PROFILE_PROPS["flaky_scheduler"] = ["C06"]
