"""Regenerate /verif/MANIFEST.json from the table below.  python -m jv.mkmanifest"""
import json
import os

VERIF = os.path.dirname(os.path.dirname(os.path.abspath(__file__)))

BASE_NOTE = ("trusted: the simulator (kernel, seams, SimSlurm, SimSoftFileLock model - compared with the installed filelock by `jv.selftest lockmodel` -, scenario generator, reference "
             "models); assumed: coherent shared file system, atomic O_EXCL/rename/unlink/<=8KiB flush, single-node "
             "batches; sampling over seeded scenarios x schedules x faults, not enumeration")

CHECKS = {
    "C01": ("exploration", "7.1", "every batch handed to SimSlurm and every job launch of every sampled run is checked online for batch-id reuse, double placement, double launch and placement of a job that already has a canceled result; completed fault-free runs are checked for exactly-one placement",
            "deterministic simulation: seeded schedule search over real jade CLI processes, exactly-once monitor at sbatch/launch seams"),
    "C02": ("exploration", "7.2", "at every job launch (HPC and local) the blockers' result rows must be on disk at that instant in linearisation order",
            "deterministic simulation: ordering invariant checked online at the launch seam"),
    "C03": ("exploration", "7.3", "final results of every completed fault-free run compared entry-by-entry with a reference DAG evaluation that depends only on DAG, exit codes and flags; HPC and local mode, all batching parameters",
            "deterministic simulation: refinement of final results against executable reference model (RefDag)"),
    "C04": ("exploration", "7.4", "canceled iff reference says so, canceled jobs have zero launches, all others exactly one launch; node-level and submitter-level cancellation reached by varying batch layout",
            "deterministic simulation: exactness oracle vs RefDag + launch counts"),
    "C05": ("exploration", "7.5", "documented recovery at quiescence must submit or complete (bounded liveness counted in recovery commands, not time), no needless waiting below max-nodes, completion once, summary before flag, no sbatch after",
            "deterministic simulation: bounded-liveness and once-only oracles over seeded schedules with a recovery driver"),
    "C06": ("exploration", "7.6", "ground-truth count of queued/running batches after every accepted sbatch and of live job processes after every launch",
            "deterministic simulation: invariant on SimSlurm / node ground truth"),
    "C07": ("exploration", "7.7", "every batch at the sbatch seam: size/time limit, group purity, group's HPC parameters and run options, blocked-job rule against disk state; dry-run twin",
            "deterministic simulation: per-batch invariant at the sbatch seam, biased to <=4 jobs"),
    "C08": ("exploration", "7.8", "component simulation of the public ResultsAggregator API (appenders x collectors at lock- and file-operation granularity) against a multiset model of acknowledged rows, plus conservation in world runs",
            "deterministic simulation: component simulation + conservation / exactly-once oracle (RefRows)"),
    "C09": ("exploration", "7.9", "status files observed at every lock-free instant at which they changed; consistency and monotonicity within an epoch",
            "deterministic simulation: state invariants + monotonicity monitor at lock-free instants"),
    "C10": ("exploration", "7.10", "component simulation of the public Cluster API: every operation checked against a single-copy model in lock-acquisition order (promotion result, stale writes rejected with files byte-identical, fresh writes accepted); writers killed between two file writes of an update, then only the safety half (no write from a copy older than the status file on disk); role-owner monitor in world runs",
            "deterministic simulation: linearizability check against a single-copy reference model"),
    "C11": ("fault_enumeration", "7.11", "pilot executions + one run per fault site of every submitter round (kill at every lock operation / external command / file mutation; sbatch, squeue, lock-acquisition and write failures at every such operation), quick: seeded sample of sites, thorough: all sites of each pilot, both lock behaviours, seeded continuations; oracles: no double submission / double launch / batch-id reuse, launch ordering, durability of result rows, normal progress after a transient squeue failure",
            "deterministic simulation with fault injection: kill-point and error-site sweep over pilot executions + random multi-fault runs"),
    "C12": ("fault_enumeration", "7.12", "seeded fault plans (sbatch failures of all kinds for drawn subsets of batches, node kills at seeded yield points of node process trees, walltime TIMEOUT, dependency cycles) followed by the documented recovery; accounting of the final results against SimSlurm / SimJobs ground truth",
            "deterministic simulation with fault injection: lost-batch fault plans + conservation oracle vs ground truth"),
    "C13": ("exploration", "7.13", "first epoch to completion with a mix of outcomes (missing via lost batch or cancel), 1-3 resubmit-jobs with drawn flags and per-epoch exit codes; rerun set = selection + transitive dependents from the scenario DAG; launches, ordering, preserved rows, result shape; refusal on incomplete submissions incl. role stripping; failed command (incl. a scheduler failure inside the command's own round, profile resubmit_faults) never leaves results erased with no way forward",
            "deterministic simulation: exactness of rerun set vs reference closure, preservation and refusal oracles over seeded histories"),
    "C14": ("exploration", "7.14", "cancel-jobs at a drawn moment (after n-th sbatch / launch / exit or at a time), followed by drawn commands and the documented recovery; no sbatch after the canceled flag became visible, scancel coverage against SimSlurm ground truth, results kept, missing accounted",
            "deterministic simulation: ordering invariant (no sbatch after cancel) + scancel coverage vs SimSlurm ground truth"),
    "C15": ("exploration", "7.15", "pipelines of 1-4 stages (HPC / local mixed, some stages with dependency cycles so that return codes differ) submitted through the real pipeline commands; ordering of every stage's first status write / sbatch / launch against the previous stage's completion, one submission per stage, pipeline.json checked after every write, C03 completeness per stage",
            "deterministic simulation: ordering / exactly-once per stage over seeded schedules, pipeline.json invariant after every write"),
    "C16": ("exploration", "7.16", "hook commands recorded by the shell stub with env and sequence number; counts and ordering per submission / per batch, HPC and local",
            "deterministic simulation: ordering / exactly-once oracle on recorded hook commands"),
    "C18": ("exploration", "7.18", "script options compared field by field with the generated SlurmConfig at every sbatch (option names validated against sbatch's vocabulary); conservative status and bounded retries in world runs and component simulations",
            "deterministic simulation: invariants at the SLURM seam + component simulation of run_command retries"),
    "C19": ("exploration", "7.19", "argv/env/stdio of every launch compared with the configured command (quoting alphabet), result rows compared with real exit code and the launching node's SLURM id",
            "deterministic simulation: invariant at launch seam + result attribution across concurrent nodes"),
    "C20": ("exploration", "7.20", "event ground truth recorded at the logging seam vs EventsSummary; aggregated stats vs served psutil samples; tallies vs entries",
            "deterministic simulation: conservation of events / stats vs samples / tally partition"),
}

NOT_APPLICABLE = [
    {"property_id": "C17", "reason": "pure function of one input evaluated by one sequential process: no schedule, clock, fault or second party for a simulator to control (DESIGN.md 7.17)"},
]

PENDING = {}


def main():
    checks = []
    for pid, (level, ref, text, tech) in sorted(CHECKS.items()):
        checks.append({
            "property_id": pid,
            "quick_cmd": f"timeout 1500 /venv/bin/python -m jv.check {pid} --tier quick",
            "thorough_cmd": f"timeout 7200 /venv/bin/python -m jv.check {pid} --tier thorough",
            "evidence_file": f"/verif/evidence/{pid}.json",
            "replay_cmd_template": "/venv/bin/python -m jv.check --replay {path}",
            "engine": "jv",
            "level_claimed": {"category": level, "text": text, "design_ref": f"DESIGN.md {ref}"},
            "level_note": BASE_NOTE,
            "technique": tech,
        })
    na = list(NOT_APPLICABLE)
    for pid, reason in sorted(PENDING.items()):
        if pid not in CHECKS:
            na.append({"property_id": pid, "reason": reason})
    m = {
        "version": 1,
        "setup_cmd": "/venv/bin/python -m jv.selftest imports",
        "hooks": {
            "guard": "JADE_VERIF_SIM",
            "enable": "no hooks in /repo: every seam is monkeypatched from /verif/jv at run time (checks import jade from /repo's working tree)",
            "baseline_off_cmd": "cd /repo && /venv/bin/python -m pytest -ra -q -p no:cacheprovider --timeout=900 --continue-on-collection-errors",
            "source_commits": [],
            "add_only": True,
        },
        "engines": [{"name": "jv", "path": "/verif/jv", "serves_properties": sorted(CHECKS),
                     "kind_free_text": "deterministic simulation with fault injection: real jade CLI processes as baton-passing threads under a seeded scheduler, simulated SLURM/shell/clock/file faults/lock model, online monitors + post-hoc oracles, two-phase shrinker, replay files"}],
        "checks": checks,
        "not_applicable": na,
        "notes": "fix: commits in /repo: see /verif/known_findings.json (status fixed). Known findings are printed as KNOWN-FINDING lines.",
    }
    with open(os.path.join(VERIF, "MANIFEST.json"), "w") as f:
        json.dump(m, f, indent=1)
    print("wrote MANIFEST.json with", len(checks), "checks;", len(na), "not applicable")


if __name__ == "__main__":
    main()
