"""Self-tests of the simulator itself (DESIGN.md section 9).

  python -m jv.selftest imports            import self-check (MANIFEST.setup_cmd)
  python -m jv.selftest determinism [N]    N seeds per profile, each run twice in-process, again in a fresh
                                           interpreter under another PYTHONHASHSEED; canonical digests must agree
"""
import json
import os
import subprocess
import sys

VERIF = os.path.dirname(os.path.dirname(os.path.abspath(__file__)))
if VERIF not in sys.path:
    sys.path.insert(0, VERIF)


def imports():
    from jv import run

    run.prepare_process()
    from jv import plugins, profiles  # noqa: F401

    print(f"ok: jade imported from {sys.modules['jade'].__file__}; {len(profiles.PROFILES)} profiles")


def _digests(names, n, offset=0):
    from jv import run, profiles, plugins  # noqa: F401
    from jv.check import run_case

    run.prepare_process()
    out = {}
    for name in names:
        for i in range(offset, offset + n):
            seed = f"st/{name}/{i}"
            _, r1 = run_case(name, seed, set(profiles.PROFILE_PROPS.get(name, ["C01"])))
            out[seed] = r1["digest"]
    return out


def determinism(n):
    from jv import run, profiles, plugins  # noqa: F401
    from jv.check import run_case

    run.prepare_process()
    names = sorted(profiles.PROFILES)
    bad = 0
    mine = {}
    for name in names:
        props = set(profiles.PROFILE_PROPS.get(name, ["C01"]))
        for i in range(n):
            seed = f"st/{name}/{i}"
            w1, r1 = run_case(name, seed, props, keep_world=True)
            _, r2 = run_case(name, seed, props)
            _, r3 = run_case(name, seed, props, scenario=w1.scenario, trace=list(w1.ch.trace))
            mine[seed] = r1["digest"]
            if not (r1["digest"] == r2["digest"] == r3["digest"]):
                bad += 1
                print(f"NONDETERMINISTIC in-process: {seed} {r1['digest'][:12]} {r2['digest'][:12]} {r3['digest'][:12]}")
    # fresh interpreters, other hash seeds, reversed profile order
    for hs in ("12345", "1"):
        env = dict(os.environ, PYTHONHASHSEED=hs, JV_NO_REEXEC="1", PYTHONDONTWRITEBYTECODE="1")
        p = subprocess.run([sys.executable, "-m", "jv.selftest", "_digests", str(n)], cwd=VERIF, env=env,
                           capture_output=True, text=True)
        try:
            other = json.loads(p.stdout.strip().splitlines()[-1])
        except Exception:  # noqa: BLE001
            print("fresh interpreter failed:", p.stdout[-400:], p.stderr[-800:])
            bad += 1
            continue
        for k, v in mine.items():
            if other.get(k) != v:
                bad += 1
                print(f"NONDETERMINISTIC across interpreters (PYTHONHASHSEED={hs}): {k}")
    print(f"determinism: {len(mine)} seeds x (2 in-process + trace replay + 2 fresh interpreters), mismatches={bad}")
    return 1 if bad else 0


if __name__ == "__main__":
    cmd = sys.argv[1] if len(sys.argv) > 1 else "imports"
    if cmd == "imports":
        imports()
    elif cmd == "determinism":
        sys.exit(determinism(int(sys.argv[2]) if len(sys.argv) > 2 else 20))
    elif cmd == "lockmodel":
        from jv import locktest

        sys.exit(locktest.main(int(sys.argv[2]) if len(sys.argv) > 2 else 200))
    elif cmd == "_digests":
        from jv import profiles, plugins  # noqa: F401

        d = _digests(sorted(profiles.PROFILES, reverse=True), int(sys.argv[2]))
        print(json.dumps(d))
