"""Harness-side readers of the on-disk state of a submission (no locks, no yields:
called from monitors, i.e. atomically with respect to the simulated processes)."""
import csv
import glob
import json
import os

FIELDS = ["name", "return_code", "status", "exec_time_s", "completion_time", "hpc_job_id"]


class Unparsable(Exception):
    pass


def read_json(path):
    try:
        with open(path) as f:
            return json.load(f)
    except FileNotFoundError:
        return None
    except (OSError, ValueError) as e:
        raise Unparsable(f"{path}: {e}")


def read_rows(path):
    """Rows of a results csv as dicts with typed fields.  None if the file is absent.
    Raises Unparsable if any row is malformed (wrong field count, bad number)."""
    try:
        with open(path, newline="") as f:
            text = f.read()
    except FileNotFoundError:
        return None
    if text == "":
        return []
    lines = text.split("\n")
    if lines and lines[-1] == "":
        lines.pop()
    else:
        raise Unparsable(f"{path}: last line not terminated: {lines[-1]!r}")
    rows = []
    rd = csv.reader(lines)
    header = None
    for i, rec in enumerate(rd):
        if i == 0:
            header = rec
            if header != FIELDS:
                raise Unparsable(f"{path}: bad header {header!r}")
            continue
        if len(rec) != len(FIELDS):
            raise Unparsable(f"{path}: row {i} has {len(rec)} fields: {rec!r}")
        try:
            row = {"name": rec[0], "return_code": int(rec[1]), "status": rec[2], "exec_time_s": float(rec[3]),
                   "completion_time": float(rec[4]), "hpc_job_id": None if rec[5] == "None" else rec[5]}
        except ValueError as e:
            raise Unparsable(f"{path}: row {i}: {e}: {rec!r}")
        rows.append(row)
    return rows


def node_result_files(output):
    return sorted(glob.glob(os.path.join(output, "results", "results_batch_*.csv")))


def all_rows(output, tolerate=False):
    """Every result row currently on disk: (file, row) pairs."""
    out = []
    for p in node_result_files(output) + [os.path.join(output, "processed_results.csv")]:
        try:
            rows = read_rows(p)
        except Unparsable:
            if tolerate:
                continue
            raise
        for r in rows or []:
            out.append((p, r))
    return out


class Outcomes:
    """Jobs that have a recorded outcome in some results file.  A file that does not parse
    (torn by an injected write failure, e.g. a header that lost its newline) still records the
    outcomes whose bytes it holds: there `<name>,<code>,<status>,` anywhere in the text counts."""

    def __init__(self, names, raw):
        self.names = names
        self.raw = raw

    def __contains__(self, name):
        if name in self.names:
            return True
        if self.raw:
            import re

            pat = re.compile(re.escape(name) + r",-?\d+,(finished|canceled),")
            return any(pat.search(t) for t in self.raw)
        return False

    def __iter__(self):
        return iter(self.names)


def names_with_rows(output, torn=False):
    """torn=True: an injected write failure may have torn a file even so that it still parses
    (a fragment glued to the next row's name); then the bytes of every file count as well."""
    names = set()
    raw = []
    for p in node_result_files(output) + [os.path.join(output, "processed_results.csv")]:
        try:
            for r in read_rows(p) or []:
                names.add(r["name"])
        except Unparsable:
            torn = True
        if torn:
            try:
                with open(p, newline="") as f:
                    raw.append(f.read())
            except OSError:
                pass
    return Outcomes(names, raw)


def classify(row):
    if row["status"] == "finished":
        return "successful" if row["return_code"] == 0 else "failed"
    if row["status"] == "canceled":
        return "canceled"
    return "other:" + str(row["status"])


def read_status(output):
    """(config dict, job_status dict) or (None, None) if absent / in the middle of a rewrite."""
    cfg = read_json(os.path.join(output, "cluster_config.json"))
    js = read_json(os.path.join(output, "job_status.json"))
    return cfg, js


def read_version(path):
    try:
        with open(path) as f:
            return int(f.read().strip())
    except (OSError, ValueError):
        return None
