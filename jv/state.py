"""Harness-side readers of the on-disk state of a submission (no locks, no yields:
called from monitors, i.e. atomically with respect to the simulated processes)."""
import csv
import glob
import json
import os

FIELDS = ["name", "return_code", "status", "exec_time_s", "completion_time", "hpc_job_id"]


class Unparsable(Exception):
    pass


def read_json(path):
    try:
        with open(path) as f:
            return json.load(f)
    except FileNotFoundError:
        return None
    except (OSError, ValueError) as e:
        raise Unparsable(f"{path}: {e}")


def read_rows(path):
    """Rows of a results csv as dicts with typed fields.  None if the file is absent.
    Raises Unparsable if any row is malformed (wrong field count, bad number)."""
    try:
        with open(path, newline="") as f:
            text = f.read()
    except FileNotFoundError:
        return None
    if text == "":
        return []
    lines = text.split("\n")
    if lines and lines[-1] == "":
        lines.pop()
    else:
        raise Unparsable(f"{path}: last line not terminated: {lines[-1]!r}")
    rows = []
    rd = csv.reader(lines)
    header = None
    for i, rec in enumerate(rd):
        if i == 0:
            header = rec
            if header != FIELDS:
                raise Unparsable(f"{path}: bad header {header!r}")
            continue
        if len(rec) != len(FIELDS):
            raise Unparsable(f"{path}: row {i} has {len(rec)} fields: {rec!r}")
        try:
            row = {"name": rec[0], "return_code": int(rec[1]), "status": rec[2], "exec_time_s": float(rec[3]),
                   "completion_time": float(rec[4]), "hpc_job_id": None if rec[5] == "None" else rec[5]}
        except ValueError as e:
            raise Unparsable(f"{path}: row {i}: {e}: {rec!r}")
        rows.append(row)
    return rows


def node_result_files(output):
    return sorted(glob.glob(os.path.join(output, "results", "results_batch_*.csv")))


def all_rows(output, tolerate=False):
    """Every result row currently on disk: (file, row) pairs."""
    out = []
    for p in node_result_files(output) + [os.path.join(output, "processed_results.csv")]:
        try:
            rows = read_rows(p)
        except Unparsable:
            if tolerate:
                continue
            raise
        for r in rows or []:
            out.append((p, r))
    return out


def names_with_rows(output):
    return {r["name"] for _, r in all_rows(output, tolerate=True)}


def classify(row):
    if row["status"] == "finished":
        return "successful" if row["return_code"] == 0 else "failed"
    if row["status"] == "canceled":
        return "canceled"
    return "other:" + str(row["status"])


def read_status(output):
    """(config dict, job_status dict) or (None, None) if absent / in the middle of a rewrite."""
    cfg = read_json(os.path.join(output, "cluster_config.json"))
    js = read_json(os.path.join(output, "job_status.json"))
    return cfg, js


def read_version(path):
    try:
        with open(path) as f:
            return int(f.read().strip())
    except (OSError, ValueError):
        return None
