"""Simulated SLURM: sbatch / squeue / scancel, job state machine, node vprocs.
Also the ground truth for which batches are queued / running at every instant."""
import json
import os
import re
import shlex

from . import kernel

ACTIVE = ("PENDING", "CONFIGURING", "RUNNING", "SUSPENDED")
# other names squeue prints for a job that has not finished (man squeue, JOB STATE CODES)
EXOTIC = {"PENDING": ("REQUEUE_HOLD", "REQUEUE_FED", "REQUEUED", "RESV_DEL_HOLD", "SPECIAL_EXIT"),
          "RUNNING": ("SIGNALING", "STAGE_OUT", "RESIZING", "STOPPED")}
FINISHED_OK = ("COMPLETING", "COMPLETED")
TERMINAL = ("COMPLETED", "FAILED", "TIMEOUT", "NODE_FAIL", "PREEMPTED", "OUT_OF_MEMORY", "CANCELLED",
            "BOOT_FAIL", "DEADLINE")

# sbatch's real long options (subset sufficient to reject misspellings)
SBATCH_LONG_OPTS = {
    "account", "job-name", "time", "output", "error", "gres", "mem", "nodes", "ntasks",
    "ntasks-per-node", "partition", "qos", "tmp", "reservation", "array", "begin", "chdir",
    "constraint", "cpus-per-task", "dependency", "exclusive", "export", "gpus", "mail-type",
    "mail-user", "mem-per-cpu", "nice", "nodelist", "requeue", "signal", "wait", "wrap",
    "cpus-per-gpu", "gpus-per-node", "mem-per-gpu", "exclude", "licenses", "comment",
}

_SBATCH_RE = re.compile(r"^#SBATCH\s+--([A-Za-z0-9_-]+)(?:=(.*))?$")


class SlurmJob:
    def __init__(self, jid):
        self.id = jid
        self.name = ""
        self.user = "root"
        self.state = "PENDING"
        self.script = None
        self.run_script = None
        self.run_line = None
        self.run_opts = {}
        self.batch_cfg = None
        self.batch_index = None
        self.output_dir = None
        self.group = None
        self.jobs = []
        self.blocked_by = {}
        self.options = {}
        self.submit_seq = 0
        self.submit_time = 0.0
        self.start_time = None
        self.end_time = None
        self.node_vp = None
        self.host = None
        self.purged = False
        self.listed_until = None
        self.env = {}
        self.foreign = False
        self.walltime_s = None
        self.submitter = None
        self.epoch = 0

    def summary(self):
        return {"id": self.id, "name": self.name, "state": self.state, "batch": self.batch_index,
                "group": self.group, "jobs": list(self.jobs)}


def parse_walltime(s):
    m = re.match(r"^(?:(\d+)-)?(\d+):(\d+):(\d+)$", str(s))
    if not m:
        m2 = re.match(r"^(\d+):(\d+)$", str(s))
        if m2:
            return int(m2.group(1)) * 60 + int(m2.group(2))
        if str(s).isdigit():
            return int(s) * 60
        return None
    d, h, mi, sec = (int(x) if x else 0 for x in m.groups())
    return ((d * 24 + h) * 60 + mi) * 60 + sec


class SimSlurm:
    def __init__(self, w, knobs):
        self.w = w
        self.k = knobs
        self.jobs = {}
        self.order = []
        self._next_id = int(knobs.get("first_job_id", 8100000))
        self.free_hosts = []
        self._host_n = 0
        self.sbatch_calls = 0
        self.squeue_calls = 0
        # foreign jobs of the same user that squeue also lists
        for i in range(int(knobs.get("foreign_jobs", 0))):
            j = SlurmJob(str(self._next_id))
            self._next_id += 1 + i
            j.foreign = True
            j.name = f"other{i}"
            j.state = ("RUNNING", "PENDING", "COMPLETING", "SUSPENDED")[i % 4]
            self.jobs[j.id] = j
            self.order.append(j)

    # ------------------------------------------------------------------ hosts
    def _alloc_host(self):
        pool = int(self.k.get("host_pool", 0))
        if self.free_hosts and pool:
            i = self.w.ch.choose(len(self.free_hosts), None, "host")
            return self.free_hosts.pop(i)
        self._host_n += 1
        return f"node{self._host_n:03d}"

    def _free_host(self, host):
        if int(self.k.get("host_pool", 0)) and host not in self.free_hosts:
            self.free_hosts.append(host)
            self.free_hosts.sort()

    # ------------------------------------------------------------------ sbatch
    def parse_script(self, path):
        """Parse a submission script the way sbatch does and follow it to the batch config."""
        info = {"options": {}, "bad_options": [], "srun": None, "run_line": None, "run_opts": {},
                "batch_cfg": None, "jobs": [], "blocked_by": {}, "group": None, "batch_index": None,
                "output": None, "run_script": None}
        with open(path) as f:
            lines = f.read().split("\n")
        body_started = False
        for ln in lines:
            s = ln.strip()
            if s.startswith("#SBATCH") and not body_started:
                m = _SBATCH_RE.match(s)
                if not m:
                    info["bad_options"].append(s)
                    continue
                name, val = m.group(1), m.group(2)
                if name not in SBATCH_LONG_OPTS:
                    info["bad_options"].append(name)
                info["options"][name] = val
            elif s and not s.startswith("#"):
                body_started = True
                toks = shlex.split(s)
                if toks and toks[0] == "srun" and len(toks) > 1:
                    info["srun"] = toks[1:]
        if info["srun"]:
            rs = info["srun"][0]
            info["run_script"] = rs
            if os.path.exists(rs):
                with open(rs) as f:
                    for ln in f.read().split("\n"):
                        s = ln.strip()
                        if s.startswith("jade-internal run-jobs"):
                            info["run_line"] = s
                            info.setdefault("run_lines", []).append(s)
            if info["run_line"]:
                toks = shlex.split(info["run_line"])
                cfg = toks[2] if len(toks) > 2 else None
                info["batch_cfg"] = cfg
                opts = {"distributed_submitter": None, "num_parallel_processes_per_node": None,
                        "verbose": False, "output": None}
                for t in toks[3:]:
                    if t == "--distributed-submitter":
                        opts["distributed_submitter"] = True
                    elif t == "--no-distributed-submitter":
                        opts["distributed_submitter"] = False
                    elif t.startswith("--num-parallel-processes-per-node="):
                        opts["num_parallel_processes_per_node"] = int(t.split("=", 1)[1])
                    elif t == "--verbose":
                        opts["verbose"] = True
                    elif t.startswith("--output="):
                        opts["output"] = t.split("=", 1)[1]
                info["run_opts"] = opts
                info["output"] = opts["output"]
                m = re.search(r"batch_(\d+)\.json", cfg or "")
                if m:
                    info["batch_index"] = int(m.group(1))
                if cfg and os.path.exists(cfg):
                    with open(cfg) as f:
                        data = json.load(f)
                    for j in data.get("jobs", []):
                        nm = j.get("name")
                        if nm is None:
                            nm = str(j.get("job_id"))
                        info["jobs"].append(nm)
                        info["blocked_by"][nm] = sorted(str(x) for x in j.get("blocked_by", []))
                        g = j.get("submission_group")
                        if info["group"] is None:
                            info["group"] = g
                        elif info["group"] != g:
                            info["group"] = "<mixed>"
                    info["estimates"] = {
                        (j.get("name") if j.get("name") is not None else str(j.get("job_id"))):
                        j.get("estimated_run_minutes") for j in data.get("jobs", [])}
                    info["job_groups"] = {
                        (j.get("name") if j.get("name") is not None else str(j.get("job_id"))):
                        j.get("submission_group") for j in data.get("jobs", [])}
        return info

    def sbatch(self, vp, argv):
        w = self.w
        self.sbatch_calls += 1
        if len(argv) < 2:
            return 1, "", "sbatch: error: no script\n"
        path = argv[1]
        w.observer += 1
        try:
            try:
                info = self.parse_script(path)
            except OSError as e:
                info = None
                err = f"sbatch: error: Unable to open file {path}: {e}\n"
        finally:
            w.observer -= 1
        attempt = w.cmd_attempt(vp, argv)
        if info is None:
            w.emit("sbatch", vp, ok=False, why="unreadable", path=w.rel(path), attempt=attempt)
            return 1, "", err
        rec = dict(path=w.rel(path), attempt=attempt, batch=info["batch_index"], group=info["group"],
                   jobs=info["jobs"], blocked_by=info["blocked_by"], options=info["options"],
                   run_opts=info["run_opts"], run_script=w.rel(info["run_script"]) if info["run_script"] else None,
                   output=w.rel(info["output"]) if info["output"] else None,
                   estimates=info.get("estimates"), job_groups=info.get("job_groups"),
                   run_lines=len(info.get("run_lines") or []))
        if info["bad_options"]:
            w.emit("sbatch", vp, ok=False, why="bad_option", bad=info["bad_options"], **rec)
            return 1, "", f"sbatch: unrecognized option '--{info['bad_options'][0]}'\n"
        fault = w.faults.sbatch(vp, argv, attempt, info)
        if fault is not None:
            kind = fault
            if kind == "garbage":
                w.cmd_series_end(vp)
                w.emit("sbatch", vp, ok=False, why="garbage", **rec)
                return 0, w.faults.garbage_text(), ""
            w.emit("sbatch", vp, ok=False, why=kind, **rec)
            if kind == "permanent":
                return 1, "", "sbatch: error: Batch job submission failed: Invalid account or account/partition combination specified\n"
            return 1, "", "sbatch: error: Batch job submission failed: Socket timed out on send/recv operation\n"
        jid = str(self._next_id)
        self._next_id += 1 + w.ch.choose(3, None, "jobid_gap")
        j = SlurmJob(jid)
        j.name = info["options"].get("job-name", "")
        j.script = path
        j.run_script = info["run_script"]
        j.run_line = info["run_line"]
        j.run_lines = list(info.get("run_lines") or [])
        j.run_opts = info["run_opts"]
        j.batch_cfg = info["batch_cfg"]
        j.batch_index = info["batch_index"]
        j.output_dir = info["output"]
        j.group = info["group"]
        j.jobs = info["jobs"]
        j.blocked_by = info["blocked_by"]
        j.options = info["options"]
        j.submit_time = w.now
        j.env = dict(vp.env)
        j.submitter = vp.id
        j.walltime_s = parse_walltime(info["options"].get("time", ""))
        self.jobs[jid] = j
        self.order.append(j)
        w.cmd_series_end(vp)
        rec2 = w.emit("sbatch", vp, ok=True, id=jid, **rec)
        j.submit_seq = rec2[0]
        wait = w.queue_wait()
        w.at(w.now + wait, lambda: self._start(j), "slurm_start")
        return 0, f"Submitted batch job {jid}\n", ""

    # ------------------------------------------------------------------ lifecycle
    def _set_state(self, j, state):
        old = j.state
        j.state = state
        self.w.emit("slurm", None, id=j.id, old=old, new=state, batch=j.batch_index)

    def _start(self, j):
        w = self.w
        if j.state != "PENDING":
            return
        if w.ch.flip(float(self.k.get("p_configuring", 0.2)), "configuring"):
            self._set_state(j, "CONFIGURING")
            w.after(w.ch.delay(0.5, 30.0, "cfg_delay"), lambda: self._run(j), "slurm_run")
        else:
            self._run(j)

    def _run(self, j):
        w = self.w
        if j.state not in ("PENDING", "CONFIGURING"):
            return
        self._set_state(j, "RUNNING")
        j.start_time = w.now
        j.host = self._alloc_host()
        env = dict(j.env)
        env.update({
            "SLURM_JOB_ID": j.id, "SLURM_NODEID": "0", "SLURM_JOB_NAME": j.name,
            "SLURM_CPUS_ON_NODE": str(w.cpus_on_node(j)), "SLURM_JOB_NODELIST": j.host,
            "LOCAL_SCRATCH": w.local_dir(j.host + "-" + j.id),
        })
        env.setdefault("JADE_REGISTRY", w.registry_file)
        j.node_vp = w.spawn("node", self._node_main(j), j.host, env, parent=None,
                            argv=["bash", w.rel(j.script)], slurm_id=j.id)
        j.node_vp.tags["slurm_job"] = j
        ps = float(self.k.get("p_suspend", 0.0))
        if ps > 0 and w.ch.flip(ps, "suspend"):
            # gang scheduling / admin suspend: squeue reports SUSPENDED for a while
            def suspend():
                if j.state == "RUNNING":
                    self._set_state(j, "SUSPENDED")
                    w.after(w.ch.delay(1.0, 600.0, "suspend_len", log=True), resume, "slurm_resume")

            def resume():
                if j.state == "SUSPENDED":
                    self._set_state(j, "RUNNING")

            w.after(w.ch.delay(0.0, 60.0, "suspend_at"), suspend, "slurm_suspend")
        if w.enforce_walltime and j.walltime_s:
            w.at(j.start_time + j.walltime_s, lambda: self.end_abnormally(j, "TIMEOUT"), "walltime")

    def _node_main(self, j):
        def target(vp):
            # bash: run the submission script: `srun <run script>`; run the run script's lines
            if not j.run_line:
                vp.err.append("srun: error: nothing to run\n")
                return 1
            from .proc import make_cli_target

            # (bash without -e: every command line of the run script, in order; the exit status of the last)
            rc = 1
            for ln in (getattr(j, "run_lines", None) or [j.run_line]):
                rc = make_cli_target(shlex.split(ln))(vp)
            return rc

        return target

    def node_exited(self, vp):
        """Called by the world when a node vproc ends by itself."""
        j = vp.tags.get("slurm_job")
        if j is None or j.state not in ("RUNNING", "SUSPENDED"):
            return
        w = self.w
        j.end_time = w.now
        j.rc = vp.exit_code
        self._write_stdio(j, vp)
        self._set_state(j, "COMPLETING")
        final = "COMPLETED" if vp.exit_code == 0 else "FAILED"
        w.after(w.ch.delay(0.0, float(self.k.get("epilog_max", 20.0)), "epilog"),
                lambda: self._finalize(j, final), "slurm_final")

    def _write_stdio(self, j, vp, extra=""):
        if not j.output_dir:
            return
        w = self.w
        try:
            base = os.path.join(j.output_dir, f"job_output_{j.id}")
            with open(base + ".o", "a") as f:
                f.write(vp.stdout_text())
            with open(base + ".e", "a") as f:
                f.write(vp.stderr_text() + extra)
        except OSError:
            pass

    def _finalize(self, j, final):
        if j.state in TERMINAL:
            return
        w = self.w
        self._set_state(j, final)
        if j.host:
            self._free_host(j.host)
        j.listed_until = w.now + w.terminal_listed_s()
        w.at(w.now + w.min_job_age(), lambda: self._purge(j), "slurm_purge")

    def _purge(self, j):
        if not j.purged:
            j.purged = True
            self.w.emit("slurm", None, id=j.id, old=j.state, new="<purged>", batch=j.batch_index)

    def end_abnormally(self, j, state):
        """TIMEOUT / NODE_FAIL / PREEMPTED / OUT_OF_MEMORY / FAILED / CANCELLED: the node's whole
        process tree is killed.  Scheduler thread only (timer callbacks)."""
        w = self.w
        if j.state in TERMINAL or j.state == "COMPLETING":
            return
        if j.node_vp is not None and j.node_vp.alive:
            extra = ""
            if state == "TIMEOUT":
                extra = f"slurmstepd: error: *** JOB {j.id} ON {j.host} CANCELLED AT x DUE TO TIME LIMIT ***\n"
            elif state == "CANCELLED":
                extra = f"slurmstepd: error: *** JOB {j.id} ON {j.host} CANCELLED AT x ***\n"
            w.shell_kill_tree(j.node_vp, state)
            self._write_stdio(j, j.node_vp, extra)
        j.end_time = w.now
        self._finalize(j, state)

    # ------------------------------------------------------------------ queries
    def active_of(self, output_dir=None):
        return [j for j in self.order if not j.foreign and j.state in ACTIVE
                and (output_dir is None or j.output_dir == output_dir)]

    def holds(self, jid):
        j = self.jobs.get(str(jid))
        return j is not None and not j.purged

    def squeue(self, vp, argv):
        w = self.w
        self.squeue_calls += 1
        attempt = w.cmd_attempt(vp, argv)
        fault = w.faults.squeue(vp, argv, attempt)
        if fault:
            w.emit("squeue", vp, ok=False, attempt=attempt)
            return 1, "", "slurm_load_jobs error: Socket timed out on send/recv operation\n"
        fmt = None
        jid = None
        name = None
        i = 1
        while i < len(argv):
            a = argv[i]
            if a == "--Format" and i + 1 < len(argv):
                fmt = argv[i + 1].split(",")
                i += 2
            elif a == "-j" and i + 1 < len(argv):
                jid = argv[i + 1]
                i += 2
            elif a == "-n" and i + 1 < len(argv):
                name = argv[i + 1]
                i += 2
            elif a == "-u" and i + 1 < len(argv):
                i += 2
            else:
                i += 1
        if fmt is None:
            fmt = ["jobid", "state"]
        now = w.now
        rows = []
        if jid is not None:
            j = self.jobs.get(jid)
            if j is None or j.purged:
                w.cmd_series_end(vp)
                w.emit("squeue", vp, ok=True, jid=jid, rows=[], invalid=True)
                return 1, "", "slurm_load_jobs error: Invalid job id specified\n"
            rows = [j]
        else:
            for j in self.order:
                if j.purged:
                    continue
                if j.state in TERMINAL and not (j.listed_until is not None and now < j.listed_until):
                    continue
                if name is not None and j.name != name:
                    continue
                rows.append(j)
        pad = w.squeue_pad
        lines = []
        shown = {}
        px = float(self.k.get("p_exotic_state", 0.0))
        for j in rows:
            disp = j.state
            if px > 0 and not j.foreign and j.state in EXOTIC and w.ch.flip(px, "exotic_state"):
                # the rest of SLURM's vocabulary for a job that is still held or running: held after a
                # requeue, waiting for a deleted reservation, being signalled, staging out ...
                disp = w.ch.pick(list(EXOTIC[j.state]), "exotic_state_name")
                w.probe("exotic_state_listed")
            shown[j.id] = disp
            vals = {"jobid": j.id, "state": disp, "name": j.name}
            cells = [str(vals.get(f, "")) for f in fmt]
            # squeue --Format pads every field to a fixed width (default 20) and never
            # lets two fields touch
            lines.append("".join(c.ljust(max(pad, len(c) + 1)) for c in cells))
        out = "\n".join(lines) + ("\n" if lines else "")
        w.cmd_series_end(vp)
        w.emit("squeue", vp, ok=True, jid=jid, rows=[(j.id, shown[j.id]) for j in rows if not j.foreign], attempt=attempt)
        return 0, out, ""

    def scancel(self, vp, argv):
        w = self.w
        jid = argv[1] if len(argv) > 1 else ""
        if w.faults.scancel(vp, argv):
            w.emit("scancel", vp, id=jid, ok=False)
            return 1, "", "scancel: error: Kill job error on job id: Socket timed out\n"
        j = self.jobs.get(jid)
        st = j.state if j else None
        w.emit("scancel", vp, id=jid, ok=True, state=st)
        if j is None or j.purged:
            return 1, "", f"scancel: error: Kill job error on job id {jid}: Invalid job id specified\n"
        if j.state in ("PENDING", "CONFIGURING"):
            w.after(0.0, lambda: (j.state in ("PENDING", "CONFIGURING")) and self._finalize(j, "CANCELLED"), "scancel")
        elif j.state in ("RUNNING", "SUSPENDED"):
            w.after(w.ch.delay(0.0, 10.0, "scancel_delay"), lambda: self.end_abnormally(j, "CANCELLED"), "scancel")
        return 0, "", ""
