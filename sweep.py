import sys, json, time, collections
sys.path.insert(0, "/verif")
from jv.kernel import Chooser
from jv import run, scenario
prof = {"name": "clean", "mode": sys.argv[3] if len(sys.argv) > 3 else "hpc", "fault_free": True}
lo, hi = int(sys.argv[1]), int(sys.argv[2])
props = {"C01","C02","C03","C04","C05","C06","C07","C09","C16","C18","C19","C20"}
agg = collections.Counter(); ex = {}
t = time.time(); cuts = 0; herr = 0
crashes = collections.Counter()
for seed in range(lo, hi):
    sc = scenario.gen_scenario(Chooser(f"scen/{seed}"), prof)
    try:
        w = run.execute(sc, prof, seed, props=props)
    except Exception as e:
        import traceback; traceback.print_exc(); print("HARNESS EXC seed", seed); herr += 1; continue
    if w.cut: cuts += 1
    if w.harness_errors: herr += 1; print("HERR", seed, w.harness_errors[0][-500:])
    for v in w.vprocs:
        if v.crash:
            crashes[(v.role, v.crash["type"], v.crash["where"])] += 1
            if "harness" in v.crash: print("HARNESS-LIKE crash", seed, v.crash["harness"][-800:])
    seen = set()
    for v in w.violations:
        k = (v["property"], v["oracle"])
        if k in seen: continue
        seen.add(k); agg[k] += 1
        ex.setdefault(k, (seed, v["message"][:400]))
print("runs", hi - lo, "wall", round(time.time() - t, 1), "cuts", cuts, "herr", herr)
for k, n in sorted(agg.items()): print(n, k, ex[k])
print("crashes", dict(crashes))
